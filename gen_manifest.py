#!/usr/bin/env python3
# Generates MANIFEST.json from the table below (kept as a script so that the
# manifest stays consistent while checks are added).
import json, subprocess

hooks = subprocess.run(["git","-C","/repo","log","--format=%H %s","d844041..HEAD"],capture_output=True,text=True).stdout.strip().split("\n")
hook_commits = [l.split()[0] for l in hooks if l and (" verif hook" in l)]

CHECKS = {}
NA = {}

def check(pid, cat, text, note, technique, design_ref, thorough=True):
    c = {
        "property_id": pid,
        "quick_cmd": f"./check {pid} quick",
        "evidence_file": f"/verif/evidence/{pid}.json",
        "replay_cmd_template": "./check --replay {path}",
        "engine": "detsim",
        "level_claimed": {"category": cat, "text": text, "design_ref": design_ref},
        "level_note": note,
        "technique": technique,
    }
    if thorough:
        c["thorough_cmd"] = f"./check {pid} thorough"
    CHECKS[pid] = c

TB = ("Trusted base: Go 1.26.8 testing/synctest (fake clock, quiescence), the harness's independent wire decoder and reference ciphers "
      "(crypto/cipher, klauspost/reedsolomon), hooks H1-H6 (add-only, build tag verif). Sampling, not enumeration: a clean batch is evidence, not proof. "
      "System calls sendmmsg/recvmmsg and real sockets are never executed.")

check("C01", "exploration",
      "Seeded search over configurations x workloads x schedules x per-datagram fates with the real session stack in one synctest bubble; after every Read the returned bytes must be the next bytes of the position-keyed reference stream (prefix oracle). Exploration is the right level: the space (fates x interleavings x 16 ciphers x FEC x windows x MTU) is far beyond enumeration, and every violation comes with a minimised, exactly replayable decision tape.",
      TB, "deterministic simulation with fault injection: seeded schedule/fault search, reference-stream prefix oracle, tape minimisation and replay", "DESIGN.md 8/C01")

import re
props = [json.loads(l) for l in open("/verif/properties.jsonl")]
exec(open("/verif/manifest_table.py").read())

m = {
 "version": 1,
 "setup_cmd": "cd /verif && ./check setup",
 "hooks": {
   "guard": "verif (Go build tag)",
   "enable": "go1.26.8 test -tags verif -c (module /verif/sim, replace github.com/xtaci/kcp-go/v5 => /repo)",
   "baseline_off_cmd": "cd /repo && GOFLAGS=-mod=mod GOPROXY=off go test -vet=off -count=1 -timeout 25m ./...",
   "source_commits": hook_commits,
   "add_only": True,
 },
 "engines": [{"name": "detsim", "path": "/verif/sim", "serves_properties": sorted(CHECKS), "kind_free_text": "deterministic discrete-event simulator over testing/synctest: seeded decision tape, simulated PacketConn/clock/entropy/scheduler seams, serialised driver, fault injection, oracles, minimiser, replay"}],
 "checks": [CHECKS[k] for k in sorted(CHECKS)],
 "not_applicable": [{"property_id": k, "reason": NA[k]} for k in sorted(NA)],
 "notes": "All checks: exit 0 held / 1 VIOLATION / 2 harness trouble. VERIF_SEED selects the batch of run seeds. known_findings.txt lists recorded findings and fixes. See DESIGN.md.",
}
ids = {p["id"] for p in props}
assert ids == set(CHECKS) | set(NA), (ids - set(CHECKS) - set(NA), )
json.dump(m, open("/verif/MANIFEST.json","w"), indent=1)
print("claimed", sorted(CHECKS)); print("n/a", sorted(NA))
