#!/usr/bin/env python3
# Generates MANIFEST.json from the table below (kept as a script so that the
# manifest stays consistent while checks are added).
import json, subprocess

hooks = subprocess.run(["git","-C","/repo","log","--format=%H %s","d844041..HEAD"],capture_output=True,text=True).stdout.strip().split("\n")
hook_commits = [l.split()[0] for l in hooks if l and (" verif hook" in l)]

CHECKS = {}
NA = {}

def check(pid, cat, text, note, technique, design_ref, thorough=True):
    c = {
        "property_id": pid,
        "quick_cmd": f"./check {pid} quick",
        "evidence_file": f"/verif/evidence/{pid}.json",
        "replay_cmd_template": "./check --replay {path}",
        "engine": "detsim",
        "level_claimed": {"category": cat, "text": text, "design_ref": design_ref},
        "level_note": note,
        "technique": technique,
    }
    if thorough:
        c["thorough_cmd"] = f"./check {pid} thorough"
    CHECKS[pid] = c

TB = ("Trusted base: Go 1.26.8 testing/synctest (fake clock, quiescence), the harness's independent wire decoder and reference ciphers "
      "(crypto/cipher, klauspost/reedsolomon), hooks H1-H6 (add-only, build tag verif). Sampling, not enumeration: a clean batch is evidence, not proof. "
      "System calls sendmmsg/recvmmsg and real sockets are never executed.")

check("C01", "exploration",
      "Seeded search over configurations x workloads x schedules x per-datagram fates with the real session stack in one synctest bubble; after every Read the returned bytes must be the next bytes of the position-keyed reference stream (prefix oracle). Exploration is the right level: the space (fates x interleavings x 16 ciphers x FEC x windows x MTU) is far beyond enumeration, and every violation comes with a minimised, exactly replayable decision tape.",
      TB, "deterministic simulation with fault injection: seeded schedule/fault search, reference-stream prefix oracle, tape minimisation and replay", "DESIGN.md 8/C01")

import re
props = [json.loads(l) for l in open("/verif/properties.jsonl")]
exec(open("/verif/manifest_table.py").read())

# additions made while the checks were strengthened (appended to the level text)
EXTRA = {
 "C01": " Also: two raw KCP cores (stream and message mode, fragmented messages up to and including exactly 256 fragments) under the same fault model, and sessions whose MTU, stream mode and no-delay mode are changed by the application in mid-transfer.",
 "C02": " Always-on invariant O-silence in every session-level run: a session holding unsent data with nothing unacknowledged in flight, or facing a zero window, hands something to the transport at least every 150 virtual seconds.",
 "C04": " At session level an admission oracle keeps its own view of the window last advertised to each sender (a packet reconstructed by FEC tells nothing new); stratum fec-window combines FEC, loss, a small receive window and a slow reader.",
 "C05": " Also: the FEC decoder alone under forged input (fec-fuzz) and a live session pair under content-valid forgeries - re-sealed header edits, Reed-Solomon-consistent forged groups that make the decoder reconstruct a packet of the forger's choosing, window-ignoring PUSH floods, raw short/truncated/bit-flipped/extended datagrams (forge-sess).",
 "C06": " Corrupted datagrams also come from strangers' addresses (at dialled sessions, also as the very first datagram), and after each one a duplicate of a genuine datagram from the real peer must still be counted as received; a process crash while such a datagram is being processed is attributed to this property through a journal phase mark.",
 "C11": " Strata: long accept stall with more peers than the backlog holds (established sessions must keep delivering), the application closing sessions the listener has replaced, the application's Close held at a yield point while the same peer's new conversation is processed (close-race), foreign sources on the peer's own host with another port.",
 "C13": " A third of the runs use read buffers smaller than a message (partial reads hand the remainder to the next blocked reader).",
 "C15": " Strata that hold a goroutine at a yield point: the listener's receive goroutine while the application closes the listener (listener-close); one of Close itself / post-processing / a scheduled update / the read loops / a blocking Read or Write across the scripted Closes (close-yield). The forged-input scenarios run under the buffer sanitizer for this property as well. SetDUP is part of the drawn configuration.",
 "C16": " Session-level convergence stratum: over a clean FIFO path the receiver sees one uninterrupted run and its decoder's effective ratio (hook H1) must be the sender's afterwards; related ratio pairs (same data count, same parity count, same sum, swapped, equal counts at the sender) are drawn deliberately.",
 "C17": " Deadline classes include deadlines centuries away (never due within a run).",
 "C18": " A third of the session-level clean-path runs start near 2^32 / 2^31 ms of the library's clock; SetNoDelay is applied in mid-transfer in both directions (the RTO bound follows the mode).",
 "C19": " A run that never comes back because the library deadlocked on a mutex is reported as a violation of this property (worker hang watchdog with goroutine dump), as for C02, C03, C11, C13, C15.",
}
for k, t in EXTRA.items():
    CHECKS[k]["level_claimed"]["text"] += t

m = {
 "version": 1,
 "setup_cmd": "cd /verif && ./check setup",
 "hooks": {
   "guard": "verif (Go build tag)",
   "enable": "go1.26.8 test -tags verif -c (module /verif/sim, replace github.com/xtaci/kcp-go/v5 => /repo)",
   "baseline_off_cmd": "cd /repo && GOFLAGS=-mod=mod GOPROXY=off go test -vet=off -count=1 -timeout 25m ./...",
   "source_commits": hook_commits,
   "add_only": True,
 },
 "engines": [{"name": "detsim", "path": "/verif/sim", "serves_properties": sorted(CHECKS), "kind_free_text": "deterministic discrete-event simulator over testing/synctest: seeded decision tape, simulated PacketConn/clock/entropy/scheduler seams, serialised driver, fault injection, oracles, minimiser, replay"}],
 "checks": [CHECKS[k] for k in sorted(CHECKS)],
 "not_applicable": [{"property_id": k, "reason": NA[k]} for k in sorted(NA)],
 "notes": "All checks: exit 0 held / 1 VIOLATION / 2 harness trouble. VERIF_SEED selects the batch of run seeds. known_findings.txt lists recorded findings and fixes. See DESIGN.md.",
}
ids = {p["id"] for p in props}
assert ids == set(CHECKS) | set(NA), (ids - set(CHECKS) - set(NA), )
json.dump(m, open("/verif/MANIFEST.json","w"), indent=1)
print("claimed", sorted(CHECKS)); print("n/a", sorted(NA))
