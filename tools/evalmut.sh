#!/bin/bash
# evalmut.sh <worktree> <diff> <demo_test_file> <demo_run_regex> <prop> [more props...]
# Confirms an independently written property-breaking change and runs checks against it.
#  1. apply diff in the worktree; build + vet
#  2. demo must FAIL with the change, PASS without
#  3. (FULL=1) the unedited existing suite must pass with the change
#  4. run ./check <prop> quick with VERIF_REPO=<worktree> for each property given
set -u
WT=$1; DIFF=$2; DEMO=$3; RX=$4; shift 4
GOENV="env -u GOTOOLCHAIN GOFLAGS=-mod=mod GOPROXY=off"
cd "$WT" || exit 2
git checkout -q -- . 2>/dev/null
if ! git apply --check "$DIFF" 2>/dev/null; then echo "RESULT apply=FAILED"; exit 2; fi
git apply "$DIFF"
if ! $GOENV go build ./... 2>/tmp/evalmut.build.$$; then echo "RESULT build=FAILED"; cat /tmp/evalmut.build.$$ | head; git checkout -q -- .; exit 2; fi
$GOENV go vet . >/dev/null 2>&1 && echo "vet=ok" || echo "vet=complains"
echo "--- demo WITH the change (expect FAIL)"
$GOENV go test -vet=off -count=1 -timeout 10m -run "$RX" . > /tmp/evalmut.with.$$ 2>&1; with=$?
tail -3 /tmp/evalmut.with.$$
if [ "${FULL:-0}" = "1" ]; then
  echo "--- existing suite WITH the change (demo files moved away)"
  mkdir -p /tmp/evalmut.hold.$$; mv zz_demo*_test.go /tmp/evalmut.hold.$$/ 2>/dev/null
  # private network namespace: the suite binds fixed loopback ports
  unshare -n sh -c "ip link set lo up; $GOENV go test -vet=off -count=1 -timeout 25m ./..." > /tmp/evalmut.suite.$$ 2>&1; suite=$?
  tail -3 /tmp/evalmut.suite.$$
  mv /tmp/evalmut.hold.$$/* . 2>/dev/null; rmdir /tmp/evalmut.hold.$$
else suite=skipped; fi
for P in "$@"; do
  echo "--- ./check $P quick against the change"
  (cd /verif && VERIF_REPO="$WT" ./check "$P" quick > /tmp/evalmut.check.$P.$$ 2>&1; echo "check_exit_$P=$?" >> /tmp/evalmut.check.$P.$$)
  grep -c "^VIOLATION" /tmp/evalmut.check.$P.$$ | sed "s/^/violations_$P=/"
  grep "^  C[0-9][0-9]/\|check_exit\|harness trouble" /tmp/evalmut.check.$P.$$ | cut -c1-260 | head -6
  rm -f /verif/replays/$P-*.json
done
git checkout -q -- .
echo "--- demo WITHOUT the change (expect PASS)"
$GOENV go test -vet=off -count=1 -timeout 10m -run "$RX" . > /tmp/evalmut.without.$$ 2>&1; without=$?
tail -2 /tmp/evalmut.without.$$
echo "RESULT demo_with_exit=$with demo_without_exit=$without suite=$suite"
rm -f /tmp/evalmut.*.$$
