#!/usr/bin/env python3
"""Registry of the property-breaking changes kept under /verif/seeded/<id>/.

Each entry was written by an independent sub-agent that was given ONLY the text
of one property and a private scratch worktree, then confirmed here with
tools/evalmut.sh (applies, builds, vets, the unedited existing suite passes with
it, its demonstration fails with it and passes without it) and run against the
checks with VERIF_REPO=<worktree>.

  python3 tools/seeded.py keep      copy patch + demo from the scratch worktrees
                                    that still exist and (re)write every meta.json
  python3 tools/seeded.py table     print the markdown table for SENSITIVITY.md
"""
import json, os, shutil, sys

ROOT = '/verif/seeded'

# result strings: "caught: ..." / "missed" / "n/a"
E = []


def add(id, src, n, prop, title, change, needs, checks, also=(), notes='', demo_rx=None, dup_of=None):
    E.append(dict(id=id, src=src, n=n, property=prop, also_relevant=list(also), title=title, change=change,
                  needs=needs, checks=checks, notes=notes, demo_rx=demo_rx or ('Demo%d' % n), duplicate_reports=dup_of or []))


exec(open(os.path.join(os.path.dirname(__file__), 'seeded_table.py')).read())

CONFIRM = [
    'git apply <patch.diff> in a scratch worktree of /repo (HEAD of /repo at the time)',
    'env -u GOTOOLCHAIN GOFLAGS=-mod=mod GOPROXY=off go build ./... && go vet .   -> ok',
    "unshare -n sh -c 'ip link set lo up; go test -vet=off -count=1 -timeout 25m ./...' (existing suite, unedited, demo files moved away) -> ok",
    'go test -vet=off -count=1 -run <demo> .   with the change -> FAIL, without the change -> ok',
    'VERIF_REPO=<worktree> ./check <property> quick   (results under "checks")',
]


def keep():
    for e in E:
        d = os.path.join(ROOT, e['id'])
        os.makedirs(d, exist_ok=True)
        wt = '/tmp/' + e['src']
        p = '%s/mutant%d.diff' % (wt, e['n'])
        t = '%s/zz_demo%d_test.go' % (wt, e['n'])
        if os.path.exists(p):
            shutil.copy(p, os.path.join(d, 'patch.diff'))
        if os.path.exists(t):
            shutil.copy(t, os.path.join(d, 'zz_demo%d_test.go' % e['n']))
        for f in ('patch.diff',):
            if not os.path.exists(os.path.join(d, f)):
                print('MISSING', d, f)
        meta = dict(id=e['id'], breaks_property=e['property'], also_relevant_to=e['also_relevant'], title=e['title'],
                    origin='independent sub-agent given only the text of property %s and a scratch worktree (%s)' % (e['property'], wt),
                    change=e['change'], needs_in_order_to_manifest=e['needs'],
                    demonstration='zz_demo%d_test.go (package kcp; copy next to the sources; go test -run %s .)' % (e['n'], e['demo_rx']),
                    confirmed_by=CONFIRM, checks=e['checks'], notes=e['notes'], duplicate_reports=e['duplicate_reports'])
        json.dump(meta, open(os.path.join(d, 'meta.json'), 'w'), indent=1)
        open(os.path.join(d, 'meta.json'), 'a').write('\n')
    print('kept', len(E))


def table():
    print('| id | property | what the change does | caught by | missed by |')
    print('|---|---|---|---|---|')
    for e in E:
        c = '; '.join('%s (%s)' % (k, v[len('caught: '):]) for k, v in e['checks'].items() if v.startswith('caught'))
        m = ', '.join(k for k, v in e['checks'].items() if v.startswith('missed'))
        print('| %s | %s | %s | %s | %s |' % (e['id'], e['property'], e['title'], c or '-', m or '-'))


if __name__ == '__main__':
    {'keep': keep, 'table': table}[sys.argv[1]]()
