# Entries of the seeded-change registry (executed by seeded.py; uses add()).
# "checks" records what ./check <prop> quick reported with VERIF_REPO pointing at
# a worktree with the change applied (VERIF_SEED=1, 16 workers).

add('C07-skipparity-no-wrap', 'mut07', 1, 'C07',
    "fecEncoder.skipParity forgets the modulo: after a skipped parity block in the last group before the id wrap the next data packet carries id == paws",
    change="fec.go skipParity: enc.next = (enc.next + parityShards) % enc.paws  ->  enc.next += parityShards",
    needs="FEC ids reaching the wrap AND a parity skip (gap >= rto between the group's data packets) in exactly the last group before the wrap AND loss in the following group",
    also=['C09', 'C12'],
    checks={'C07 quick': 'caught: 32 violations, C07/fec-completeness/missing-not-reconstructed (fec-stream: encoder->decoder across the wrap with skipped groups)',
            'C09 quick': 'missed (before the wrap stratum drew skips at the wrap; see notes)'},
    dup_of=['mut09 mutant1 (C09 agent)', 'mut12 mutant2 (C12 agent)'],
    notes="Three agents (C07, C09, C12) independently produced this same change.")

add('C07-discard-window-wrong-unit', 'mut07', 2, 'C07',
    "fecDecoder.discardShards compares a distance in sequence ids with a count of groups: a group is thrown away as soon as one packet of a newer group is seen",
    change="fec.go discardShards: > maxShardSets*int32(dec.shardSize)  ->  > maxShardSets",
    needs="a data loss in group g and at least one packet of group g+1 arriving before the packet that completes g's quorum (reordering across a group boundary)",
    checks={'C07 quick': 'caught: 24 runs, C07/fec-completeness/missing-not-reconstructed (fec-stream; e.g. 147 distinct packets of a group received, 38 reconstructions expected, 0 returned)',
            'C01 quick': 'missed (correct: the stream stays intact, only FEC recovery is lost)'})

add('C05-newest-shard-compare-unscaled', 'mut05', 1, 'C05',
    "fecDecoder.decode compares bare shard ids when updating the newest id while discardShards compares scaled ids: after one stray high id nothing is ever aged out",
    change="fec.go decode: _itimediff(shardId*shardSize, newest*shardSize) > 0  ->  _itimediff(shardId, newest) > 0",
    needs="one datagram with a valid FEC header and an id in the upper half of the id space (forged/corrupted without a cipher, or the natural wrap), then ordinary lossy traffic",
    checks={'C05 quick': 'caught: 15 runs, C05/bloat/fec-shard-sets "the FEC decoder holds 17 shard sets" (forge-sess and fec-fuzz, both added in this wave)',
            'C07 quick': 'missed (correct: completeness is not affected)'},
    notes="Before this wave C05 had no scenario that bounded the FEC decoder's holdings; fec-fuzz and forge-sess were added (the first before the agent reported, the second after).")

add('C05-reconstructed-size-lower-bound', 'mut05', 2, 'C05',
    "UDPSession.kcpInput no longer checks sz >= 2 for a RECONSTRUCTED packet: a group whose reconstruction yields size field 0 or 1 panics in the read loop",
    change="sess.go kcpInput: if int(sz) <= len(r) && sz >= 2  ->  if int(sz) <= len(r)",
    needs="a multi-datagram forged group that is a valid Reed-Solomon codeword whose MISSING packet has size field 0/1 (a received packet is never cut by this field)",
    checks={'C05 quick': "caught: 86 runs, C05/survive/crash panic slice bounds out of range [2:0] @ (*UDPSession).kcpInput (forge-sess 'rs-consistent-group', added in response)"},
    notes="Missed by construction before: no C05 scenario made the decoder reconstruct a packet of the forger's choosing. forge-sess now computes parity with the reference Reed-Solomon code over a group containing a chosen packet (lying size field, forged header) and injects d-1 data packets + 1 parity packet.")

add('C04-stale-window-on-retransmission', 'mut04', 1, 'C04',
    "the wnd field is stamped when a segment enters snd_buf instead of at every transmission: retransmitted PUSH segments advertise a stale, larger window",
    change="kcp.go flush: newseg.wnd = seg.wnd at admission, per-transmission segment.wnd = seg.wnd removed",
    needs="bidirectional traffic, a loss causing a retransmission, and a slow local reader so that the delivery queue grew since the first transmission",
    checks={'C04 quick': 'caught: 95 runs, C04/truthful-window/advertised-more-than-free (e.g. "segment advertises wnd=3, delivery queue has room for 1")'})

add('C04-peer-window-dropped-under-cwnd', 'mut04', 2, 'C04',
    "with congestion control on, the effective window is min(cwnd, snd_wnd) - the peer's advertised window is dropped from the minimum",
    change="kcp.go flush: cwnd = min(kcp.cwnd, cwnd)  ->  cwnd = min(kcp.cwnd, kcp.snd_wnd)",
    needs="congestion control on, cwnd grown by a period of successful transfer, then a stalling peer reader so that the advertised window falls below cwnd (masked by the clamp in Input while the window does not shrink)",
    checks={'C04 quick': 'caught: 348 runs, C04/admission/new-segment-beyond-window (e.g. "new sn put on the wire with 1 outstanding; min(send window 2, peer\'s advertised window 0, cwnd ...) = 0")'})

add('C06-listener-crc-mismatch-falls-through', 'mut06', 1, 'C06',
    "Listener.packetInput counts a CRC32 mismatch but no longer returns: the corrupted datagram is processed as if verified",
    change="sess.go Listener.packetInput: return after the checksum mismatch removed",
    needs="a corrupted datagram reaching a Listener under a non-AEAD cipher (client sessions and AEAD listeners unaffected; fault-free traffic identical)",
    checks={'C06 quick': 'caught: 201 runs, C06/no-effect/state-changed ("... changed listener at listener.sessions.len") and C06/no-effect/counter-changed (KCPInErrors)'})

add('C06-short-datagram-guard-wrong-constant', 'mut06', 2, 'C06',
    "UDPSession.packetInput guards len(data) < nonceSize (16) instead of cryptHeaderSize (20): a 16..19 byte datagram is decrypted and then panics",
    change="sess.go UDPSession.packetInput: len(data) < cryptHeaderSize  ->  len(data) < nonceSize",
    needs="a datagram of exactly 16..19 bytes at a dialled session under a non-AEAD cipher",
    also=['C05'],
    checks={'C06 quick': 'caught: 185 runs, C06/no-effect/crash-on-datagram-failing-the-check: panic slice bounds out of range @ (*UDPSession).packetInput (after the strengthening below)',
            'C05 quick': "caught: 39 runs, C05/survive/crash @ (*UDPSession).packetInput (forge-sess 'raw-short', added in response)"},
    notes="First evaluation: the C06 check SAW the crash (185 runs) but reported it as harness trouble (exit 2, 'undecidable here; see C05') because a process crash was only a violation for C02/C05/C10, and C05's scenarios sent no 16..19 byte datagrams to a ciphered dialled session. Strengthened: the worker journals a phase mark around each injection, and a crash inside the 'datagram failing the check is being processed' phase is a C06 violation; forge-sess gained raw short/truncated/bit-flipped/extended datagrams.")
