# Entries of the seeded-change registry (executed by seeded.py; uses add()).
# "checks" records what ./check <prop> quick reported with VERIF_REPO pointing at
# a worktree with the change applied (VERIF_SEED=1, 16 workers).

add('C07-skipparity-no-wrap', 'mut07', 1, 'C07',
    "fecEncoder.skipParity forgets the modulo: after a skipped parity block in the last group before the id wrap the next data packet carries id == paws",
    change="fec.go skipParity: enc.next = (enc.next + parityShards) % enc.paws  ->  enc.next += parityShards",
    needs="FEC ids reaching the wrap AND a parity skip (gap >= rto between the group's data packets) in exactly the last group before the wrap AND loss in the following group",
    also=['C09', 'C12'],
    checks={'C07 quick': 'caught: 32 violations, C07/fec-completeness/missing-not-reconstructed (fec-stream: encoder->decoder across the wrap with skipped groups)',
            'C09 quick': "caught: 9 runs, C09/wire/fec-id-range 'FEC id 4294967292 outside [0,4294967292)' (after stratum 'wrap' was added to the C09 plan; missed before)",
            'C12 quick': 'caught: 24 runs, C12/C09-wire/fec-id-range and C12/fec-completeness/missing-not-reconstructed'},
    dup_of=['mut09 mutant1 (C09 agent)', 'mut12 mutant2 (C12 agent)', 'mw2_09 mutant2 (C09 agent, round 2)', 'mw2_12 mutant2 (C12 agent, round 2)'],
    notes="Three agents (C07, C09, C12) independently produced this same change. The C09 plan had no run near the FEC id wrap; the session-level 'wrap' stratum (sequence numbers, clock and FEC ids all near their wraps) now runs for C09 as well, decided by the wire oracle.")

add('C07-discard-window-wrong-unit', 'mut07', 2, 'C07',
    "fecDecoder.discardShards compares a distance in sequence ids with a count of groups: a group is thrown away as soon as one packet of a newer group is seen",
    change="fec.go discardShards: > maxShardSets*int32(dec.shardSize)  ->  > maxShardSets",
    needs="a data loss in group g and at least one packet of group g+1 arriving before the packet that completes g's quorum (reordering across a group boundary)",
    checks={'C07 quick': 'caught: 24 runs, C07/fec-completeness/missing-not-reconstructed (fec-stream; e.g. 147 distinct packets of a group received, 38 reconstructions expected, 0 returned)',
            'C01 quick': 'missed (correct: the stream stays intact, only FEC recovery is lost)'})

add('C05-newest-shard-compare-unscaled', 'mut05', 1, 'C05',
    "fecDecoder.decode compares bare shard ids when updating the newest id while discardShards compares scaled ids: after one stray high id nothing is ever aged out",
    change="fec.go decode: _itimediff(shardId*shardSize, newest*shardSize) > 0  ->  _itimediff(shardId, newest) > 0",
    needs="one datagram with a valid FEC header and an id in the upper half of the id space (forged/corrupted without a cipher, or the natural wrap), then ordinary lossy traffic",
    checks={'C05 quick': 'caught: 15 runs, C05/bloat/fec-shard-sets "the FEC decoder holds 17 shard sets" (forge-sess and fec-fuzz, both added in this wave)',
            'C07 quick': 'missed (correct: completeness is not affected)'},
    notes="Before this wave C05 had no scenario that bounded the FEC decoder's holdings; fec-fuzz and forge-sess were added (the first before the agent reported, the second after).")

add('C05-reconstructed-size-lower-bound', 'mut05', 2, 'C05',
    "UDPSession.kcpInput no longer checks sz >= 2 for a RECONSTRUCTED packet: a group whose reconstruction yields size field 0 or 1 panics in the read loop",
    change="sess.go kcpInput: if int(sz) <= len(r) && sz >= 2  ->  if int(sz) <= len(r)",
    needs="a multi-datagram forged group that is a valid Reed-Solomon codeword whose MISSING packet has size field 0/1 (a received packet is never cut by this field)",
    checks={'C05 quick': "caught: 86 runs, C05/survive/crash panic slice bounds out of range [2:0] @ (*UDPSession).kcpInput (forge-sess 'rs-consistent-group', added in response)"},
    notes="Missed by construction before: no C05 scenario made the decoder reconstruct a packet of the forger's choosing. forge-sess now computes parity with the reference Reed-Solomon code over a group containing a chosen packet (lying size field, forged header) and injects d-1 data packets + 1 parity packet.")

add('C04-stale-window-on-retransmission', 'mut04', 1, 'C04',
    "the wnd field is stamped when a segment enters snd_buf instead of at every transmission: retransmitted PUSH segments advertise a stale, larger window",
    change="kcp.go flush: newseg.wnd = seg.wnd at admission, per-transmission segment.wnd = seg.wnd removed",
    needs="bidirectional traffic, a loss causing a retransmission, and a slow local reader so that the delivery queue grew since the first transmission",
    checks={'C04 quick': 'caught: 95 runs, C04/truthful-window/advertised-more-than-free (e.g. "segment advertises wnd=3, delivery queue has room for 1")'})

add('C04-peer-window-dropped-under-cwnd', 'mut04', 2, 'C04',
    "with congestion control on, the effective window is min(cwnd, snd_wnd) - the peer's advertised window is dropped from the minimum",
    change="kcp.go flush: cwnd = min(kcp.cwnd, cwnd)  ->  cwnd = min(kcp.cwnd, kcp.snd_wnd)",
    needs="congestion control on, cwnd grown by a period of successful transfer, then a stalling peer reader so that the advertised window falls below cwnd (masked by the clamp in Input while the window does not shrink)",
    checks={'C04 quick': 'caught: 348 runs, C04/admission/new-segment-beyond-window (e.g. "new sn put on the wire with 1 outstanding; min(send window 2, peer\'s advertised window 0, cwnd ...) = 0")'})

add('C06-listener-crc-mismatch-falls-through', 'mut06', 1, 'C06',
    "Listener.packetInput counts a CRC32 mismatch but no longer returns: the corrupted datagram is processed as if verified",
    change="sess.go Listener.packetInput: return after the checksum mismatch removed",
    needs="a corrupted datagram reaching a Listener under a non-AEAD cipher (client sessions and AEAD listeners unaffected; fault-free traffic identical)",
    checks={'C06 quick': 'caught: 201 runs, C06/no-effect/state-changed ("... changed listener at listener.sessions.len") and C06/no-effect/counter-changed (KCPInErrors)'})

add('C06-short-datagram-guard-wrong-constant', 'mut06', 2, 'C06',
    "UDPSession.packetInput guards len(data) < nonceSize (16) instead of cryptHeaderSize (20): a 16..19 byte datagram is decrypted and then panics",
    change="sess.go UDPSession.packetInput: len(data) < cryptHeaderSize  ->  len(data) < nonceSize",
    needs="a datagram of exactly 16..19 bytes at a dialled session under a non-AEAD cipher",
    also=['C05'],
    checks={'C06 quick': 'caught: 185 runs, C06/no-effect/crash-on-datagram-failing-the-check: panic slice bounds out of range @ (*UDPSession).packetInput (after the strengthening below)',
            'C05 quick': "caught: 39 runs, C05/survive/crash @ (*UDPSession).packetInput (forge-sess 'raw-short', added in response)"},
    notes="First evaluation: the C06 check SAW the crash (185 runs) but reported it as harness trouble (exit 2, 'undecidable here; see C05') because a process crash was only a violation for C02/C05/C10, and C05's scenarios sent no 16..19 byte datagrams to a ciphered dialled session. Strengthened: the worker journals a phase mark around each injection, and a crash inside the 'datagram failing the check is being processed' phase is a C06 violation; forge-sess gained raw short/truncated/bit-flipped/extended datagrams.")

add('C09-encrypt-uses-decrypt-scratch', 'mut09', 2, 'C09',
    "blockCrypt.Encrypt works in the decryption scratch buffer: a Decrypt landing between two block operations of an Encrypt corrupts the rest of the outgoing datagram",
    change="crypt.go blockCrypt.Encrypt: encrypt(c.block, dst, src, c.encbuf)  ->  ... c.decbuf",
    needs="a CFB block cipher AND an incoming datagram being decrypted while an outgoing one is part-way through encryption on the same BlockCrypt (true preemption inside encrypt())",
    also=['C14'],
    checks={'C09 quick': 'missed (Mode S serialises goroutines at library yield points; nothing preempts inside encrypt(), so the corrupted datagram is never produced there)',
            'C14 quick': 'caught: 50 runs, C14/race/decrypt8|encrypt8 and decrypt16|encrypt16 (race detector, free-running mode)'},
    notes="The C09 wire oracle would flag the corrupted datagram if it were produced; producing it needs a data race, which is C14's domain. Recorded as a limit of the serialised mode in DESIGN.md.")

add('C02-stale-duplicate-not-acknowledged', 'mut02', 1, 'C02',
    "a PUSH with sn < rcv_nxt (already delivered) is no longer acknowledged: if the ACK of the tail of a flight is lost the sender retransmits for ever",
    change="kcp.go Input: ack_push(sn, ts) moved inside the 'sn >= rcv_nxt' test",
    needs="loss of exactly the datagram carrying the ACK of the last data in flight, with no reverse data traffic at that moment",
    checks={'C02 quick': 'caught: 193 runs, C02/liveness/backlog-not-drained (xfer after heal) and backlog-not-drained-enum (exhaustive 4-fate enumeration of the first datagrams, case [deliver drop deliver deliver])'})

add('C02-probe-tells-instead-of-asks', 'mut02', 2, 'C02',
    "when the zero-window probe timer fires the sender emits WINS (tell) instead of WASK (ask): nobody ever answers",
    change="kcp.go flush: kcp.probe |= IKCP_ASK_SEND  ->  IKCP_ASK_TELL",
    needs="receiver's queue full (zero window advertised), everything in flight acknowledged, backlog in snd_queue, reader resumes, and the single unsolicited WINS is lost",
    also=['C03'],
    checks={'C02 quick': 'caught: 14 runs, C02/liveness/backlog-not-drained',
            'C03 quick': 'caught: 56 runs, C03/resume/transfer-does-not-resume'})

add('C03-store-test-uses-advertised-window', 'mut03', 1, 'C03',
    "parse_data tests sn against rcv_nxt+wnd_unused() instead of rcv_nxt+rcv_wnd while Input acknowledges against rcv_wnd: with a stalled reader an overshoot segment is acknowledged but thrown away",
    change="kcp.go parse_data: kcp.rcv_nxt+kcp.rcv_wnd  ->  kcp.rcv_nxt+uint32(kcp.wnd_unused())",
    needs="a stalled or slow reader plus a sender that overshoots the currently advertised window (initial rmt_wnd 32 against a smaller rcv_wnd with nc=1, reordered ACKs, FEC-recovered una)",
    checks={'C03 quick': 'caught: 111 runs, C03/resume/transfer-does-not-resume and C03/C01-stream/incomplete',
            'C01 quick': 'missed (correct: what is delivered is still a prefix; the loss of liveness is C02/C03 territory)'})

add('C03-probe-only-with-empty-snd-buf', 'mut03', 2, 'C03',
    "zero-window probing only when snd_buf is empty: an acked-but-not-yet-shrunk entry in snd_buf suppresses probing for ever",
    change="kcp.go flush: if kcp.rmt_wnd == 0  ->  if kcp.rmt_wnd == 0 && kcp.snd_buf.Len() == 0",
    needs="overshoot (rcv_wnd below the assumed 32 with nc=1), the sender having written between rcv_wnd+1 and 2*rcv_wnd segments when the reader stalls so that the last one is acked selectively, and the WINS sent on resume lost",
    checks={'C03 quick': 'caught: 2 runs, C03/resume/transfer-does-not-resume (thin at the quick tier; thorough runs 40x as many)'})

add('C10-parity-size-not-reset-on-skipped-group', 'mut10', 1, 'C10',
    "fecEncoder.maxSize is reset only when parity was generated: after a skipped group a stale (larger) size cuts the parity of later groups, also after an accepted MTU reduction",
    change="fec.go encode: enc.maxSize = 0 moved into the branch that generated parity",
    needs="FEC on, a group that ends after an idle gap >= rto (parity skipped) and held a big packet, a later ACCEPTED SetMtu reduction, then a continuous group",
    checks={'C10 quick': "caught: 2 runs, C10/mtu/datagram-exceeds-mtu 'datagram of 1400 bytes exceeds MTU 1214' (sess-mtu stratum 'skip-shrink', added in response)"},
    notes="First evaluation: missed. sess-mtu had no idle gaps >= rto, so parity was never skipped before a reduction. The new stratum writes with pauses of 100..600 ms and walks the MTU down a staircase. Oversize parity of a group that STRADDLES the reduction stays the recorded finding F2; this change makes groups wholly after the reduction oversize, which is reported.")

add('C10-window-announcement-without-room-check', 'mut10', 2, 'C10',
    "flush appends the WINS header without makeSpace: up to 23 bytes beyond the MTU are handed to output",
    change="kcp.go flush: makeSpace(IKCP_OVERHEAD) before IKCP_CMD_WINS dropped",
    needs="in ONE flush: a pending WINS (peer's WASK or a Recv on a full queue) and exactly enough pending ACKs to fill the datagram (mtu/24), which must survive the ACK filter",
    checks={'C10 quick': "caught: 22 runs, C10/core-mtu/output-exceeds-mtu 'output callback invoked with size 48, core MTU is 39' and C10/mtu/datagram-exceeds-mtu at session level"})

add('C11-fec-branch-does-not-read-sn', 'mut11', 1, 'C11',
    "Listener.packetInput no longer reads sn from FEC data packets: every FEC data packet with a foreign conversation id looks like the start of a new conversation",
    change="sess.go Listener.packetInput, case typeData: the line reading sn deleted",
    needs="FEC traffic, a reconnect from the same address with a new conversation id, and a delayed datagram of the OLD conversation (sn != 0) arriving afterwards",
    checks={'C11 quick': 'caught: 187 runs, C11/accept/wrong-conversation and C11/isolation/session-failed'})

add('C11-backlog-guard-off-by-one', 'mut11', 2, 'C11',
    "accept-backlog guard '>=' becomes '>': with exactly 128 pending peers one more new peer blocks the listener's only receive goroutine until the application accepts",
    change="sess.go Listener.packetInput: len(l.chAccepts) >= cap(l.chAccepts)  ->  >",
    needs="exactly 128 un-accepted peers, the application not accepting, one more first packet from another address, and established sessions with data still to move",
    checks={'C11 quick': "caught: 3 of the 6 backlog runs, C11/isolation/established-session-stalled-by-unaccepted-peers (backlog stratum 'long stall', added in response)"},
    notes="First evaluation: missed. The backlog stratum stalled the acceptor for at most 2 s at a time and judged only the final accept counts, so a receive goroutine blocked until the next Accept left no trace. Now: accept 1..5 peers, stop accepting for two virtual minutes while 129+ further peers arrive within a second; an established session with data pending must deliver something during the last minute (no completion time is demanded).")

add('C12-receive-heap-plain-comparison', 'mut12', 1, 'C12',
    "segmentHeap.Less compares sn with '<' instead of the wrap-aware difference: segments on both sides of 2^32 sort wrongly and the receive buffer never drains",
    change="kcp.go segmentHeap.Less: _itimediff(sn_j, sn_i) > 0  ->  sn_i < sn_j",
    needs="sequence numbers crossing 2^32 with loss or reordering exactly there",
    checks={'C12 quick': 'caught: 37 runs, C12/metamorphic/trace-differs (core-wrap: shifted run vs run from 0)',
            'C01 quick': 'missed (correct for its strata: C01 does not start near the wrap; C12 owns it)'})

add('C13-write-timer-not-reenabled', 'mut13', 1, 'C13',
    "WriteBuffers loses 'c = timeout.C' when re-arming its timer: after set -> clear -> set of the write deadline a blocked Write never times out",
    change="sess.go WriteBuffers: the line c = timeout.C after timeout.Reset removed",
    needs="a Write blocked on a full send window and the deadline sequence set -> zero -> set applied while that same call is blocked",
    checks={'C13 quick': 'caught: 21 runs, C13/missed-wakeup/write-pending-past-deadline'})

add('C13-no-read-event-after-fec-recovery', 'mut13', 2, 'C13',
    "the read-event notification runs before the FEC recovery loop instead of after it: data that becomes readable only through reconstruction wakes nobody",
    change="sess.go kcpInput (FEC case): the PeekSize()>0 -> notifyReadEvent() block moved before fecDecoder.decode",
    needs="FEC on, a data shard lost so that the awaited segment exists only by reconstruction, the triggering packet being parity or an out-of-order data shard, and nothing arriving afterwards",
    also=['C02'],
    checks={'C13 quick': "caught: 317 runs, C13/missed-wakeup/read-pending-with-data 'a reader has been blocked in Read for 60.9ms although data is readable'",
            'C02 quick': 'caught: 1 run, C02/liveness/backlog-not-drained'})

add('C16-newest-id-not-reset-on-retune', 'mut16', 1, 'C16',
    "the auto-tune branch no longer clears newestValid: after adopting a larger group size the stale newest id makes discardShards delete every current shard set",
    change="fec.go decode (auto-tune branch): dec.newestValid = false deleted",
    needs="receiver's group smaller than the sender's, a starting id not near zero, and a loss after convergence",
    checks={'C16 quick': 'caught: 129 runs, C16/fec-completeness/missing-not-reconstructed (after convergence)',
            'C07 quick': 'missed (correct: matching ratios never retune)'})

add('C16-parameter-change-test-wrong-variable', 'mut16', 2, 'C16',
    "the 'did the parameters change?' test compares the detected parity count with dec.dataShards: sender k/k against receiver k/x never converges",
    change="fec.go decode (auto-tune branch): autoPS != dec.parityShards  ->  autoPS != dec.dataShards",
    needs="a sender with equal data and parity counts and a receiver with the same data count but a different parity count (2/2 vs 2/1, 10/10 vs 10/3)",
    checks={'C16 quick': "caught: 20 runs, C16/fec-convergence/not-converged 'the decoder is at 100/33, the sender uses 100/100' (1 run before the generator drew related pairs deliberately)"},
    notes="First evaluation: 1 run of 3860. The generator drew sender and receiver ratios independently; it now draws related pairs (same data count, same parity count, same sum, swapped, equal counts at the sender) in a third of the mismatch runs.")

add('C14-listener-error-walk-without-lock', 'mut14', 1, 'C14',
    "Listener.notifyReadError walks the session map without sessionLock (inside a sync.Once, so it still looks protected)",
    change="sess.go notifyReadError: l.sessionLock.RLock()/RUnlock() around the range over l.sessions dropped",
    needs="the listener's own socket read failing at the same moment an accepted session is being closed from another goroutine",
    checks={'C14 quick': 'caught: 74 runs, C14/race/(*Listener).closeSession|(*Listener).monitor.(*Listener).notifyReadError.func1 (race detector)'},
    notes="Caught by the teardown modes of the race scenario (socket read / write errors injected under the crowd, sessions closed from goroutines of their own while the listener's socket fails), which were added during this wave before this change was evaluated; the earlier scenario closed everything in a fixed orderly sequence and never drove notifyReadError concurrently with Close (not measured against the earlier version).")

add('C14-nonatomic-shared-counter', 'mut14', 2, 'C14',
    "DefaultSnmp.FECRecovered is incremented with += instead of atomic.AddUint64: two sessions race on the process-wide counter",
    change="fec.go decode: atomic.AddUint64(&DefaultSnmp.FECRecovered, n)  ->  DefaultSnmp.FECRecovered += n",
    needs="FEC configured, a data shard lost with parity arriving (recovery path), in two sessions at overlapping moments (or concurrently with a reader of the counters)",
    checks={'C14 quick': 'caught: 151 runs, C14/race/(*Snmp).ToSlice|(*fecDecoder).decode and (*fecDecoder).decode|(*fecDecoder).decode'})

add('C17-heap-compares-unix-nanoseconds', 'mut17', 1, 'C17',
    "the scheduler's heap compares ts.UnixNano(): a deadline beyond year 2262 overflows to a negative key, sorts first and the worker sleeps ~292 years",
    change="timedsched.go Less: h[i].ts.Before(h[j].ts)  ->  h[i].ts.UnixNano() < h[j].ts.UnixNano()",
    needs="a pending deadline beyond the range of int64 nanoseconds since 1970 together with a nearer task on the same worker",
    checks={'C17 quick': "caught: 574 runs, C17/promptly/task-not-run (deadline class 'centuries away', added in response)"},
    notes="First evaluation not run: by construction the far-future class stopped at 100 hours, which no int64 overflow reaches; the generator now also draws deadlines ~292 years away (never due within a run; a run that executes one is caught by never-early).")

add('C17-prepend-notification-unbuffered', 'mut17', 2, 'C17',
    "chPrependNotify loses its capacity of 1: Put's non-blocking send is dropped whenever the prepend goroutine is busy, the task sits until some later Put",
    change="timedsched.go: make(chan struct{}, 1)  ->  make(chan struct{})",
    needs="a Put racing with the prepend goroutine mid-forward and no later Put to flush it",
    checks={'C17 quick': 'caught: 159 runs, C17/promptly/task-ran-late and task-not-run (yield points sched.put / sched.prepend / sched.task decide the interleaving)'})

add('C18-resend-test-not-wrap-aware', 'mut18', 1, 'C18',
    "flush tests 'current >= segment.resendts' instead of the wrap-aware difference: a segment first sent less than one RTO before the 32-bit millisecond clock wraps is retransmitted at every flush",
    change="kcp.go flush: _itimediff(current, segment.resendts) >= 0  ->  current >= segment.resendts",
    needs="the 32-bit millisecond clock wrapping (49.7 days of uptime) while data is in flight",
    also=['C12'],
    checks={'C18 quick': "caught: 25 runs, C18/clean-path/retransmission 'sn 0 transmitted 2 times on a clean path' (clean path across the clock wrap, added in response; missed before)",
            'C12 quick': 'caught: 190 runs, C12/metamorphic/trace-differs'},
    notes="The clean-path strata started every run at clock 0. A third of the session-level clean-path runs now start near 2^32 or 2^31 ms.")

add('C18-rto-upper-bound-dropped', 'mut18', 2, 'C18',
    "update_ack no longer clamps rx_rto to 60 s",
    change="kcp.go update_ack: min(max(rx_minrto, rto), IKCP_RTO_MAX)  ->  max(rx_minrto, rto)",
    needs="an ACK whose echoed timestamp is tens of seconds old (forged, or a genuine RTT above ~20 s)",
    checks={'C18 quick': "caught: 419 runs, C18/rto-bound/rto-out-of-bounds 'rto=862333885 outside [100,60000]' (core-forge) and 'GetRTO()=74880' at session level"})

add('C15-dup-copies-share-one-buffer', 'mut15', 1, 'C15',
    "postProcess queues the SAME pooled buffer dup times for SetDUP(n) and recycles every queue entry: one Get, n Puts",
    change="sess.go postProcess: one buffer acquired outside the dup loop and appended dup times",
    needs="SetDUP(n) with n >= 2 (a deprecated testing knob of the library; 0 and 1 behave as before)",
    checks={'C15 quick': "caught: 39 runs, C15/pool/double-recycle 'buffer recycled while not owned' (pool sanitizer; SetDUP drawn in ~6 % of the transfer runs, added in response)"},
    notes="Not reachable before: the harness never called SetDUP. It is now part of the session configuration on a tape stream of its own, and the wire oracle recognises the configured duplicates.")

add('C15-recheck-before-backlog-push', 'mut15', 2, 'C15',
    "Listener.packetInput re-checks 'listener closed?' BEFORE pushing the new session to the backlog instead of after: a session lands on the backlog of a closed listener and lives for ever",
    change="sess.go Listener.packetInput: the select on l.die / closePendingSessions moved above l.chAccepts <- s",
    needs="Listener.Close() running exactly while the first packet of a new peer is between the 'closed?' test and the backlog push",
    checks={'C15 quick': "caught: 289 runs, C15/leak/callback-after-close '36000 scheduled session callbacks still ran more than 12s after everything was closed' (stratum peers/listener-close, added in response; missed before)"},
    notes="First evaluation: missed. The yield points listener.newsess / listener.accept existed in /repo (hook H5) but no scenario parked there. The new stratum parks the listener's receive goroutine at the k-th hit of one of them, lets the application close the listener, then releases it.")

add('C19-oob-size-check-ignores-conv', 'mut19', 1, 'C19',
    "SendOOB compares len(data) instead of the full size with the MTU: payloads 1..4 bytes above GetOOBMaxSize() are accepted",
    change="sess.go SendOOB: if size > int(s.kcp.mtu)  ->  if len(data) > int(s.kcp.mtu)",
    needs="a payload in the 4-byte band just above GetOOBMaxSize() (max+5 is still refused)",
    also=['C10'],
    checks={'C19 quick': "caught: 603 runs, C19/refusal/oversize-accepted 'SendOOB accepted 62 bytes, GetOOBMaxSize() is 61'",
            'C10 quick': "caught: 317 runs, C10/mtu/datagram-exceeds-mtu 'datagram of 1401 bytes exceeds MTU 1400' and C10/survive/panic-in-sendoob (slice bounds out of range [:1501] with capacity 1500)"})

add('C19-foreign-conversation-oob-resets-session', 'mut19', 2, 'C19',
    "Listener.packetInput lets an OOB packet with a foreign conversation id count as the start of a conversation (re-opens the defect repaired by 9eed4b2)",
    change="sess.go Listener.packetInput: if sn != 0 || fecFlag == typeOOB { return }  ->  if sn != 0 { return }",
    needs="an OOB datagram delayed by the network (or forged) arriving after the same address opened a new conversation",
    also=['C11'],
    checks={'C19 quick': 'caught: 20 runs, C19/C11-accept/wrong-conversation',
            'C11 quick': 'caught: 8 runs, C11/accept/wrong-conversation and C11/isolation/session-failed'})

add('C01-recv-forgets-rcv-nxt', 'mut01', 1, 'C01',
    "the rcv_buf -> rcv_queue loop at the end of Recv loses its rcv_nxt++: a segment moved there is delivered but still expected, so a second copy is accepted and delivered again",
    change="kcp.go Recv: kcp.rcv_nxt++ removed from the move loop (the twin loop in parse_data keeps it)",
    needs="the receive queue overrun (rcv_wnd below the 32 the sender assumes, or a stale window advert), the application reading so that Recv moves the waiting segment, and a second copy of that datagram arriving afterwards (duplicate, or retransmission after a lost ACK)",
    checks={'C01 quick': 'caught: 21 runs, C01/stream/prefix-mismatch'})

add('C04-reconstructed-packet-treated-as-regular', 'mw2_04', 1, 'C04',
    "packets rebuilt by the FEC decoder are passed to kcp.Input as REGULAR: the stale, larger window of an older packet replaces the newer, smaller one",
    change="sess.go kcpInput: s.kcp.Input(r[2:sz], IKCP_PACKET_FEC, ...)  ->  IKCP_PACKET_REGULAR",
    needs="FEC on, the peer's window shrinking, an earlier packet (larger wnd) lost, a later one (smaller wnd) delivered, then parity rebuilding the lost one, with data waiting to be sent",
    checks={'C04 quick': "caught: 181 runs, C04/admission/new-segment-beyond-advertised-window 'new sn put on the wire with 2 outstanding; min(send window 64, window last advertised to it 0) = 0' (session-level admission oracle and stratum xfer/fec-window, added in response; missed before)"},
    notes="First evaluation: missed. C04's admission oracle existed only for raw cores (no FEC there); at session level only the occupancy limits were checked. Added: an admission oracle for sessions that keeps its own view of the window last advertised to a sender (wnd of the last segment of the last regular datagram DELIVERED to it - a reconstructed packet tells nothing new), and a stratum with FEC, loss, a small receive window and a slow reader.")

add('C04-timeout-branch-skipped-after-fast-retransmit', 'mw2_04', 2, 'C04',
    "flush: 'if change > 0 {...} if lostSegs > 0 {...}' becomes 'else if': when one flush does a fast retransmit AND a timeout retransmit, cwnd becomes ssthresh+resend instead of 1",
    change="kcp.go flush (congestion response): second 'if' turned into 'else if'",
    needs="congestion control and fast resend on, fewer than 2*fastresend segments in flight, the RTO expiring with no flush in between, duplicate ACKs pushing the oldest segment's skip counter to the threshold in that same flush, then new data",
    checks={'C04 quick': 'caught: 1 run, C04/admission/new-segment-after-timeout-loss (thin at the quick tier: 1 of 3540 runs; the thorough tier runs 40x as many)'},
    notes="Close to the recorded finding F1 (a fast retransmission in a LATER flush re-opens the window after a timeout loss, signature ...+fast-retransmit). The oracle distinguishes them: a fast retransmission counted in the SAME step as the timeout loss does not make the run 'reopened', so this change is reported under the plain signature and is not absorbed by F1.")

add('C05-recv-drain-tests-wrong-queue', 'mw2_05', 2, 'C05',
    "Recv's rcv_buf -> rcv_queue loop tests rcv_buf.Len() < rcv_wnd instead of rcv_queue.Len(): every read drains the whole reorder buffer into an already full queue",
    change="kcp.go Recv: kcp.rcv_queue.Len() < int(kcp.rcv_wnd)  ->  kcp.rcv_buf.Len() < int(kcp.rcv_wnd)",
    needs="the reader falling behind until the queue is full, the peer ignoring the zero window and sending the next rcv_wnd sequence numbers, the application reading one message - repeated",
    also=['C04'],
    checks={'C04 quick': "caught: 5 runs, C04/occupancy/rcv-queue-exceeds-window '6 segments await the reader, receive window is 4'",
            'C05 quick': "caught: 39 runs, C05/C04-occupancy/rcv-queue-exceeds-window '3 segments await the reader, receive window is 2' (forge-sess 'push-flood', added in response; missed before)"},
    notes="First evaluation: caught under C04 only. Under C05 the occupancy limits were a foreign signature in the session-level forgery scenario, and no forger kept sending well-formed PUSH segments beyond the window while the application reads at its own pace. forge-sess now does (bursts of up to 600 consecutive sequence numbers), and occupancy beyond the windows counts for C05 there.")

add('C11-stale-close-removes-replacement', 'mw2_11', 1, 'C11',
    "UDPSession.Close calls l.closeSession(s.remote) BEFORE the already-closed guard: a second Close of a session the listener has replaced deletes the REPLACEMENT from the listener's table (deletion is by address)",
    change="sess.go UDPSession.Close: the listener clean-up moved above 'if !once { return ErrClosedPipe }'",
    needs="a peer reconnecting from the same address (the listener replaces S1 by S2), the application then closing S1 as applications do after a failed Read, and more data on the new conversation",
    checks={'C11 quick': "caught: 26 runs, C11/accept/wrong-conversation and accept-count oracles (after 'the application closes the replaced session' was added; missed before)"},
    notes="First evaluation: missed. The harness never closed a session the listener had already closed by itself. It now does, a seeded 1 us .. 100 ms after the replacement. After fix 93f1d1b (R16) Close removes its session by identity; the change is kept in a form ported to that tree (it re-introduces the by-address removal, early), the diff as the agent wrote it is kept beside it; re-evaluated on the fixed tree: caught, 252 violations.")

add('C11-source-filter-ignores-port', 'mw2_11', 2, 'C11',
    "sameUDPAddr: 'a.Port != b.Port || a.Zone != b.Zone' becomes '&&': with empty zones the port is never compared, a dialled session accepts datagrams from any port of its peer's host",
    change="readloop.go sameUDPAddr: || -> &&",
    needs="a foreign datagram from the peer's IP but another port, carrying the session's conversation id",
    checks={'C11 quick': "caught: 4 runs, C11/C01-stream/prefix-mismatch and read-beyond-written at the dialled session (after same-host other-port sources were added to the injector; missed before)"},
    notes="First evaluation: missed. Foreign sources injected at dialled sessions always came from other hosts. The injector now also uses the peer's own IP with another port (as *net.UDPAddr in UDP address mode).")

add('C11-backlog-test-before-existing-session', 'mw2_11', 3, 'C11',
    "Listener.packetInput tests 'accept backlog full' before looking up the existing session: while 128 unaccepted peers fill the backlog, datagrams of ACCEPTED sessions are dropped too",
    change="sess.go Listener.packetInput: the backlog-full return moved in front of 'if exist'",
    needs="a full accept backlog during an accept stall and established sessions with data to move",
    checks={'C11 quick': 'caught: 3 of the 6 backlog runs, C11/isolation/established-session-stalled-by-unaccepted-peers'},
    notes="An extra change the C11 round-2 agent left outside its deliverables; kept because the long-stall oracle added for C11-backlog-guard-off-by-one catches it unchanged.")

add('C15-recheck-after-backlog-push-removed', 'mw2_15', 1, 'C15',
    "Listener.packetInput no longer re-checks 'listener closed?' after pushing the new session to the backlog",
    change="sess.go Listener.packetInput: the select on l.die / closePendingSessions after l.chAccepts <- s removed",
    needs="Listener.Close() running after packetInput's early closed-test but before the backlog push of a new peer's session",
    checks={'C15 quick': 'caught: 294 runs, C15/leak/callback-after-close (stratum peers/listener-close)'})


# further duplicate reports (the same change produced again by another agent)
for _id, _d in {
    'C13-write-timer-not-reenabled': ['mw2_13 mutant2 (C13 agent, round 2)'],
    'C13-no-read-event-after-fec-recovery': ['mw2_13 mutant1 (C13 agent, round 2)', 'mw2_02 mutant1 (C02 agent, round 2)'],
    'C03-store-test-uses-advertised-window': ['mw2_02 mutant2 (C02 agent, round 2)'],
    'C05-reconstructed-size-lower-bound': ['mw2_05 mutant1 (C05 agent, round 2)'],
    'C10-parity-size-not-reset-on-skipped-group': ['mw2_10 mutant1 (C10 agent, round 2)'],
}.items():
    for _e in E:
        if _e['id'] == _id:
            _e['duplicate_reports'] += _d

add('C01-send-admits-256-fragments', 'mut01', 2, 'C01',
    "Send admits a message of 256 fragments ('count > 255' becomes '> 256'); PeekSize computes frg+1 in uint8, which wraps to 0 for frg 255, so a partly arrived message is handed out",
    change="kcp.go Send: if count > 255  ->  if count > 256",
    needs="message mode with a raw KCP writer, a message of exactly 256 fragments, windows of at least 256, and the reader polling while the message is partly delivered",
    checks={'C01 quick': "caught: 49 runs, C01/core-stream/message-boundary 'message 2 has 16560 bytes at offset 16, the peer's message 2 had 141011' (after the two additions below; missed before)"},
    notes="First evaluation: missed twice over. (1) The raw-core generator clamped every message to 255 fragments, so the boundary was never attempted; it now attempts messages of exactly 256 fragments (refused - then never sent - or accepted - then they must arrive intact). (2) The C01 plan contained only session scenarios, and sessions never fragment; the raw-core scenario (which always carried the C01 oracles) now runs for C01 itself.")

add('C15-false-alarm-retune-recycles-live-shards', 'mw2_15', 2, 'C15',
    "the decoder's 'recycle old shards' loop runs whenever re-detection finishes, while the shard table is replaced only if the ratio really changed: after a false alarm the pool gets buffers the decoder still references",
    change="fec.go decode (auto-tune branch): the defaultBufferPool.Put loop moved out of 'if autoDS != dec.dataShards || autoPS != dec.parityShards'",
    needs="at least two clean FEC groups, a shard buffered in an incomplete group, one packet whose FEC type does not fit its sequence position (unencrypted link), then re-detection confirming the current ratio",
    also=['C14'],
    checks={'C15 quick': "caught: 48 runs, C15/pool/double-recycle 'buffer recycled while not owned' (fec-fuzz under C15, added in response; missed before)",
            'C07 quick': 'missed (correct for its strata: genuine packets never trigger re-detection)'},
    notes="First evaluation: missed - the forged-input scenarios with the buffer sanitizer ran only under C05, where a pool violation is a foreign signature and is not reported. They now also run for C15. The C14 round-2 agent produced the same change (mw2_14 mutant1).",
    dup_of=['mw2_14 mutant1 (C14 agent, round 2)'])

add('C10-setmtu-ignores-segments-in-flight', 'mw2_10', 2, 'C10',
    "KCP.SetMtu checks snd_queue twice and never snd_buf: a reduction is accepted while a larger segment is still in flight",
    change="kcp.go SetMtu: the loop over kcp.snd_buf replaced by a second loop over kcp.snd_queue",
    needs="a large message transmitted and still unacknowledged (packet or ACK lost), SetMtu shrinking the MTU at that point, then an RTO retransmission",
    checks={'C10 quick': "caught: 29 runs, C10/core-mtu/empty-output, C10/mtu/datagram-exceeds-mtu 'datagram of 883 bytes exceeds MTU 381' and C10/survive/crash panic slice bounds out of range @ (*KCP).flush"})

add('C12-probe-wait-not-reset', 'mw2_12', 1, 'C12',
    "when the peer's window re-opens flush resets ts_probe but no longer probe_wait: on the SECOND closure the stale timer is compared with the absolute clock - harmless below 2^31 ms, never probing again above",
    change="kcp.go flush (window open branch): kcp.probe_wait = 0 removed",
    needs="the peer's window closing and re-opening once, closing a second time with everything acknowledged, the clock in its upper half at that moment, and the window update lost",
    also=['C03'],
    checks={'C12 quick': 'caught: 31 runs, C12/metamorphic/trace-differs (core-wrap)',
            'C03 quick': 'caught: 4 runs, C03/resume/transfer-does-not-resume'})

add('C16-lazy-decoder-guard-wrong-field', 'mw2_16', 1, 'C16',
    "kcpInput's lazy creation of the decoder tests s.fecEncoder == nil instead of s.fecDecoder == nil: an end without FEC creates a fresh 1/1 decoder for EVERY incoming FEC packet",
    change="sess.go kcpInput: if s.fecDecoder == nil  ->  if s.fecEncoder == nil",
    needs="FEC enabled at one end only, plus a loss only FEC could repair (the stream itself survives through retransmission)",
    checks={'C16 quick': "caught: 27 runs, C16/fec-convergence/session-not-converged 'after an uninterrupted run of 272 packets from a 1/2 sender the receiver's decoder (configured 0/0) is at 1/1' (stratum xfer/mismatch-converge, added in response; missed before)"},
    notes="First evaluation: missed. Convergence was decided only at codec level (fec-stream drives the decoder alone); at session level only 'the stream stays intact' was demanded, which retransmission satisfies. The new stratum gives the receiver one uninterrupted run over a clean FIFO path and reads its decoder's effective ratio through hook H1.")

add('C16-newest-id-reset-to-zero', 'mw2_16', 2, 'C16',
    "the retune block resets newestShardId to 0 instead of clearing newestValid: with FEC ids in the upper half of the id space the wrap-aware comparison never replaces 0 and every shard set is discarded at once",
    change="fec.go decode (auto-tune branch): dec.newestValid = false  ->  dec.newestShardId = 0",
    needs="mismatching ratios, at least one packet accepted under the old ratio, the sender's ids >= 2^31 when the retune happens, then a data loss",
    checks={'C16 quick': 'caught: 85 runs, C16/fec-completeness/missing-not-reconstructed (ids 2147483659, 4294966632)'})

add('C06-source-filter-pinned-by-first-datagram', 'mw2_06', 1, 'C06',
    "defaultReadLoop pre-loads its source filter only for *net.UDPAddr remotes: over another transport the filter is pinned to the sender of the FIRST datagram read - before decryption and the integrity check",
    change="readloop.go defaultReadLoop: the 'else { srcStr = s.remote.String() }' branch dropped",
    needs="a dialled session over a non-UDP net.PacketConn whose first datagram comes from a foreign source (random or too short is enough), then ordinary traffic from the real peer",
    also=['C11'],
    checks={'C06 quick': "caught: 12 runs, C06/no-effect/session-deaf-after-corrupted-datagram 'after a datagram failing the integrity check (data/truncated, from sim-241) a genuine datagram from the session's peer sim-1 is no longer taken in by sim-2' (strangers' datagrams at dialled sessions, also as the very first datagram, and the still-hears-its-peer probe; added in response; missed before)",
            'C11 quick': 'caught: 3 runs, C11/C01-stream/prefix-mismatch and read-beyond-written (foreign datagram first at a dialled session in non-UDP address mode)'},
    notes="First evaluation: missed under C06 (caught under C11). The corrupted datagrams injected at dialled sessions always claimed the real peer's address, and the filter is a local variable of the read loop, invisible to the reflection snapshot. Now a third of them come from a stranger, the first one sometimes before anything genuine has arrived, and after every injection at a dialled session a duplicate of a genuine datagram from the real peer must still be counted as received (the counter sits behind the source filter and the integrity gate).")

add('C06-listener-short-datagram-guard', 'mw2_06', 2, 'C06',
    "Listener.packetInput guards len(data) < nonceSize (16) instead of cryptHeaderSize (20): a 16..19-byte datagram panics in the listener's receive goroutine",
    change="sess.go Listener.packetInput: len(data) < cryptHeaderSize  ->  len(data) < nonceSize",
    needs="a datagram of exactly 16..19 bytes at a listener under a CRC-class cipher",
    also=['C05'],
    checks={'C06 quick': 'caught: 59 runs, C06/no-effect/crash-on-datagram-failing-the-check @ (*Listener).packetInput',
            'C05 quick': 'caught: 14 runs, C05/survive/crash @ (*Listener).packetInput'})

add('C09-encrypt-without-its-mutex', 'mw2_09', 1, 'C09',
    "blockCrypt.Encrypt no longer takes encMu: two sessions of one listener share the BlockCrypt and its CFB feedback block",
    change="crypt.go blockCrypt.Encrypt: c.encMu.Lock()/Unlock() removed",
    needs="a CFB block cipher, at least two sessions sharing the BlockCrypt, and one encrypting while the other is between blocks",
    also=['C14'],
    checks={'C09 quick': 'missed (same limit as C09-encrypt-uses-decrypt-scratch: needs preemption inside encrypt())',
            'C14 quick': 'caught: 25 runs, C14/race/encrypt8|encrypt8 and encrypt16|encrypt16'})

add('C01-foreach-reverse-on-wrapped-ring', 'mw2_01', 1, 'C01',
    "RingBuffer.ForEachReverse yields a wrapped ring in the wrong order: stream-mode Send appends to a MIDDLE queued segment instead of the last one",
    change="ringbuffer.go ForEachReverse: the two loops of the wrapped branch swapped",
    needs="the 64-slot snd_queue rotated and a backlog wrapping it, a setter applied in mid-transfer that leaves queued segments not full (SetMtu raised, or stream mode switched on with short messages queued), and one more Write before the backlog drains",
    checks={'C01 quick': "caught: 4 runs, C01/stream/prefix-mismatch (scenario sess-mtu under C01 with mid-transfer SetStreamMode, added in response; missed before)"},
    notes="First evaluation: missed. Setters were applied in mid-transfer only by C10's scenario, where a stream violation is a foreign signature; and SetStreamMode was never called after the start. sess-mtu now also switches stream mode at seeded points and runs for C01.")

add('C01-peeksize-counts-reorder-buffer', 'mw2_01', 2, 'C01',
    "PeekSize counts fragments parked in rcv_buf towards a message's completeness: Recv returns a truncated message, the rest comes out as another one",
    change="kcp.go PeekSize: rcv_queue.Len() < frg+1  ->  rcv_queue.Len()+rcv_buf.Len() < frg+1",
    needs="message mode with fragmented messages (raw KCP endpoint), a fragment lost, later segments parked behind the hole, and the application polling Recv before the retransmission arrives",
    checks={'C01 quick': "caught: 139 runs, C01/core-stream/message-boundary 'message 8 has 219 bytes at offset 903, the peer's message 8 had 417' (raw-core scenario under C01)"})

add('C07-decode-cache-parity-slots-not-cleared', 'mw2_07', 1, 'C07',
    "the decoder's cache reset clears only the data slots: parity slots keep slices of the previously assembled group (buffers already recycled), and Reed-Solomon uses a stale one as if present",
    change="fec.go decode: 'for k := range dec.decodeCache' -> 'for k := range dec.dataShards' in the cache reset",
    needs="group A repaired with parity index i; a later group B losing parity i and a data packet; B reaching quorum through a higher parity index",
    also=['C05'],
    checks={'C07 quick': "caught: 560 runs, C07/fec-soundness/recovered-bad-size 'decoder returned a packet whose size field is 56283 - not an original data packet'",
            'C05 quick': 'caught: 184 runs, C05/survive/crash panic slice bounds out of range @ (*fecDecoder).decode'})

add('C07-parity-truncated-on-the-wire', 'mw2_07', 2, 'C07',
    "postProcess sizes the transmit copy of a parity packet with len(buf) - the data packet that completed the group - instead of len(ecc[k])",
    change="sess.go postProcess (parity copy loop): defaultBufferPool.Get()[:len(ecc[k])] -> [:len(buf)]",
    needs="a group whose last data packet is shorter than its longest one, plus a loss in that group that parity has to repair",
    also=['C09'],
    checks={'C07 quick': 'caught: 5 runs, C07/C01-stream/prefix-mismatch (without a cipher the receiver zero-pads the truncated parity and reconstructs garbage)',
            'C09 quick': "caught: 567 runs, C09/wire/parity-length 'parity body 41 bytes, longest data payload of the group 226' and C09/wire/unparseable (integrity: crc)"})

add('C17-worker-pushes-without-sifting', 'mw2_17', 2, 'C17',
    "the worker calls tasks.Push(task) - the heap.Interface append hook - instead of heap.Push: the slice is no longer a min-heap, the timer follows tasks[0]",
    change="timedsched.go sched: heap.Push(&tasks, task) -> tasks.Push(task)",
    needs="a task reaching a worker whose heap already holds a task with a later deadline (decreasing or non-monotone deadlines on one worker)",
    checks={'C17 quick': 'caught: 1046 runs, C17/promptly/task-ran-late and task-not-run'})

add('C18-timer-rearmed-for-the-new-task', 'mw2_18', 1, 'C18',
    "after pushing a new task the worker re-arms its timer for THAT task's deadline, not the earliest one on its heap: a short-interval session sharing a worker with a long-interval one flushes late and its peer retransmits on a clean path",
    change="timedsched.go sched: timer.Reset(tasks[0].ts.Sub(now)) -> timer.Reset(task.ts.Sub(now))",
    needs="two live sessions with clearly different flush intervals on the same scheduler worker, the short-interval one only receiving",
    also=['C17'],
    checks={'C18 quick': "caught: 6 runs, C18/clean-path/retransmission 'sn 2 transmitted 2 times on a clean path'",
            'C17 quick': 'caught: 843 runs, C17/promptly/task-ran-late and task-not-run'})

add('C18-minrto-not-restored-on-leaving-nodelay', 'mw2_18', 2, 'C18',
    "NoDelay no longer restores the 100 ms minimum when switching back to normal mode: the RTO stays clamped at 30 ms",
    change="kcp.go NoDelay: the 'else { kcp.rx_minrto = IKCP_RTO_MIN }' branch dropped (ported to the tree after fix 25a5852, which touches the neighbouring lines; the diff as the agent wrote it is kept beside it)",
    needs="NoDelay(1,...) then NoDelay(0,...) on the same connection, then low-RTT samples pulling the RTO below 100 ms",
    checks={'C18 quick': "caught: 19 runs, C18/rto-bound/rto-out-of-bounds 'GetRTO()=92 outside [100,60000]' (mid-transfer SetNoDelay in scenario sess-mtu, run for C18; added in response; missed before)"},
    notes="First evaluation: missed - SetNoDelay was applied once, before traffic. Applying it in mid-transfer immediately exposed a genuine defect on the UNCHANGED tree (R14: GetRTO below the new minimum until the next sample), which was repaired in /repo (25a5852) before this change could be evaluated on its own.")

add('C14-error-walk-over-live-map-snapshot', 'mw2_14', 2, 'C14',
    "Listener.notifyReadError copies the map REFERENCE under the read lock, unlocks, then ranges over it: the walk runs over the live map without a lock",
    change="sess.go notifyReadError: sessions := l.sessions under RLock, RUnlock, then range sessions",
    needs="the listener's socket read failing while accepted sessions exist, and a session being closed during the walk",
    checks={'C14 quick': 'caught: 28 runs, C14/race/(*Listener).closeSession|(*Listener).monitor.(*Listener).notifyReadError.func1'})

add('C19-oob-counted-as-data-shard', 'mw2_19', 1, 'C19',
    "postProcess runs the FEC encoder's encode() for out-of-band packets too (then re-labels them): the OOB consumes a FEC id and a group slot, parity is computed over it",
    change="sess.go postProcess: if !oob { encode } else { encodeOOB }  ->  encode(); if oob { encodeOOB() }",
    needs="data, then SendOOB inside the same FEC group, then more data, then loss of a packet of that group (or a segment-shaped OOB payload plus the parity arriving)",
    also=['C07'],
    checks={'C19 quick': "caught: 837 runs, C19/C09-wire/fec-id-sequence 'FEC id 5, expected 2'",
            'C07 quick': 'missed (correct for its strata: no OOB traffic there)'})

# round-2 duplicates
for _id, _d in {
    'C17-prepend-notification-unbuffered': ['mw2_17 mutant1 (C17 agent, round 2)'],
    'C04-reconstructed-packet-treated-as-regular': ['mw2_03 mutant1 (C03 agent, round 2)'],
    'C12-probe-wait-not-reset': ['mw2_03 mutant2 (C03 agent, round 2)'],
    'C19-foreign-conversation-oob-resets-session': ['mw2_19 mutant2 (C19 agent, round 2)'],
}.items():
    for _e in E:
        if _e['id'] == _id:
            _e['duplicate_reports'] += _d

add('C13-next-reader-forgets-carry-over', 'mw3_13', 2, 'C13',
    "notifyNextReader passes the wake-up on only if a whole message is queued, not if a partly read one is left in the session's carry-over buffer",
    change="sess.go notifyNextReader: len(s.bufptr) > 0 || s.kcp.PeekSize() > 0  ->  s.kcp.PeekSize() > 0",
    needs="at least two goroutines blocked in Read on one session when data arrives, the woken reader's buffer smaller than the message, no further complete message behind it and no later packet",
    checks={'C13 quick': "caught: 690 runs, C13/missed-wakeup/read-pending-with-data 'a reader has been blocked in Read for 126.5us although data is readable (carry-over 387 bytes, next message -1 bytes)' (read buffers smaller than a message in a third of the runs, added in response; missed before)"},
    notes="First evaluation: missed. Every reader of the blocking scenario used a 1500-byte buffer, so no Read ever left a remainder behind. A third of the runs now use buffers smaller than the message (the content check is off there - pieces go to whichever reader comes next - the wake-up rules stay on).")

# round-3 duplicates
for _id, _d in {
    'C13-write-timer-not-reenabled': ['mw3_13 mutant1 (C13 agent, round 3)'],
    'C11-stale-close-removes-replacement': ['mw3_11 mutant1 (C11 agent, round 3)'],
    'C01-recv-forgets-rcv-nxt': ['mw3_01 mutant1 (C01 agent, round 3)'],
    'C01-send-admits-256-fragments': ['mw3_01 mutant2 (C01 agent, round 3)'],
    'C13-no-read-event-after-fec-recovery': ['mw3_02 mutant1 (C02 agent, round 3)'],
    'C18-timer-rearmed-for-the-new-task': ['mw3_02 mutant2 (C02 agent, round 3)'],
    'C15-recheck-before-backlog-push': ['mw3_15 mutant2 (C15 agent, round 3)'],
}.items():
    for _e in E:
        if _e['id'] == _id:
            _e['duplicate_reports'] += _d

add('C19-refused-oob-leaves-the-session-locked', 'mw3_19', 2, 'C19',
    "SendOOB's oversize error path returns with the session mutex held (defer Unlock replaced by an explicit unlock further down)",
    change="sess.go SendOOB: defer s.mu.Unlock() removed, s.mu.Unlock() placed after the early 'payload too large' return",
    needs="one SendOOB with GetOOBMaxSize()+1 bytes, followed by any further use of the session",
    checks={'C19 quick': "caught: 16 runs, C19/hang/deadlock:library-mutex-never-released (after the worker's own hang watchdog was added; before, the runs hung until the supervisor's watchdog killed the workers and the check exited 2 - 'harness trouble' - instead of reporting a violation)"},
    notes="First evaluation: the check NOTICED (every run with an oversize SendOOB hung: a goroutine blocked on a sync.Mutex is not a durable block, so virtual time and synctest.Wait stop) but could only say 'watchdog killed worker(s)', exit 2. Added: a real-time watchdog inside the worker (outside the bubble) that, when a run does not come back within the plan's per-run limit, dumps every goroutine, journals HANG and exits; the supervisor reads the dump and, if goroutines of the library - or the harness's own state hook - wait for a library mutex that no running goroutine holds, reports <property>/hang/deadlock:... for the properties whose statement a permanent standstill violates (C02, C03, C11, C13, C15, C19), with a replay by seed; after four such runs the rest of the batch is skipped (every hang costs the full limit). Any other hang stays harness trouble (exit 2).")

add('C15-post-processing-never-rearms-its-close-signal', 'mw3_15', 1, 'C15',
    "postProcess no longer re-arms its die channel after draining: once it has seen Close with packets still queued it blocks for ever",
    change="sess.go postProcess: the 'chDie = s.die' reset at the end of the request arm removed",
    needs="Close racing with in-flight outgoing packets (a slow transport, or Close's own final flush)",
    checks={'C15 quick': 'caught: 453 runs, C15/leak/goroutine-survives-close ((*UDPSession).postProcess still exists after sessions, listener and transport were closed)'})

add('C11-output-blocks-when-the-device-queue-is-full', 'mw3_11', 2, 'C11',
    "the KCP output callback waits for room in the per-session device queue instead of dropping the packet: it runs under the session mutex, which the listener's only receive goroutine needs",
    change="sess.go newUDPSession (output callback): the 'default:' drop branch of the select on chPostProcessing removed",
    needs="one session with a large send window throttled by SetRateLimit, more than 2048 packets queued on it, inbound traffic from that peer, then traffic for another peer",
    checks={'C11 quick': 'missed (needs a 2048-packet device queue filled behind a rate limiter; the multi-peer scenario keeps per-session tuning at its defaults)'},
    notes="Not pursued: reaching the state costs several thousand queued datagrams per run. Recorded as a miss. (Its first evaluation ran on a worktree from before fix 93f1d1b and reported that defect's signatures; re-evaluated on the fixed tree: 0 violations.)")

add('C19-closed-session-still-reads-one-packet', 'mw3_19', 1, 'C19',
    "defaultReadLoop tests 'session closed?' before the blocking read instead of after it: on a caller-owned PacketConn the next packet to arrive is still processed by the closed session",
    change="readloop.go defaultReadLoop: if s.isClosed() { return } moved from after ReadFrom to the top of the loop",
    needs="a caller-owned PacketConn (NewConn3), Close of the session, a NEW session on the same conn, and the first packet after the Close being an out-of-band message",
    also=['C15'],
    checks={'C19 quick': "caught: 215 of 400 runs of the new scenario (measured with the developer loop), C19/oob/delivered-to-a-closed-session 'the out-of-band handler of A ran 13 ms after that session had been closed' (scenario oob-successor, added in response; missed before)", 'C15 quick': 'missed (not its statement)'},
    notes="First evaluation: missed - the harness gave every session a PacketConn of its own, so no session ever shared a conn with a closed one's parked read loop. The new scenario closes a pair on caller-owned conns, creates successors with a new conversation on the same conns and lets out-of-band messages be the first datagrams after the Close.")

add('C10-flush-buffer-sized-from-the-previous-mtu', 'mw4_10', 1, 'C10',
    "KCP.SetMtu allocates the flush buffer before storing the new MTU, i.e. for the MTU in force before the call",
    change="kcp.go SetMtu: kcp.buffer = make(...) moved above kcp.mtu = uint32(mtu) and sized from kcp.mtu",
    needs="a reduction to a small MTU followed later by an increase on the same connection (e.g. 400 then 1400) and a full-size segment in a flush (the 3x slack hides any single call)",
    checks={'C10 quick': 'caught: 123 runs, C10/survive/panic slice bounds out of range @ (*KCP).flush and index out of range @ (*segment).encode (an ACCEPTED MTU must not crash)'})

add('C04-ack-only-flush-admits-segments', 'mw4_04', 2, 'C04',
    "the admission loop of flush runs in an ACK-only flush too (the inverse of fix 33fc511): segments admitted against the window of that moment reach the wire in the next full flush whatever the window is then",
    change="kcp.go flush: for flushType == IKCP_FLUSH_FULL {  ->  for {",
    needs="an ACK-only flush (SetACKNoDelay(true), or 58+ pending ACKs), data waiting in snd_queue, and the peer closing its window before the next full flush",
    checks={'C04 quick': "caught: 9 runs, C04/admission/new-segment-beyond-advertised-window 'new sn put on the wire with 6 outstanding; min(send window 16, window last advertised to it 3) = 3'"})

add('C05-stale-groups-discarded-only-when-the-newest-advances', 'mw4_05', 1, 'C05',
    "fecDecoder.decode calls discardShards only inside the branch that advances the newest id: packets of groups far behind the newest one pile up until something newer arrives",
    change="fec.go decode: dec.discardShards() moved inside 'if ... newer than newestShardId'",
    needs="a newest group established, then datagrams of many different OLD groups while nothing newer arrives",
    checks={'C05 quick': "caught: 41 runs, C05/bloat/fec-shard-sets 'the FEC decoder holds 17 shard sets'"})

add('C06-listener-aead-guard-forgets-the-nonce', 'mw4_06', 1, 'C06',
    "the listener's AEAD branch guards len(data) < Overhead() instead of nonceSize+Overhead()",
    change="sess.go Listener.packetInput (AEAD case): if len(data) < nonceSize+block.Overhead()  ->  if len(data) < block.Overhead()",
    needs="to PANIC: a caller-supplied AEAD whose nonce is longer than its tag and a datagram in between; with the stock AES-GCM (nonce 12, tag 16) only the counters differ",
    checks={'C06 quick': "caught: 3 runs, C06/counter/csum-error-counter 'InCsumErrors went from 0 to 1 after a corrupted datagram of 16 bytes; expected 0' (the counter oracle; the configuration space has no AEAD with a nonce longer than its tag, so the panic itself is not reached)"})

add('C06-client-crc-mismatch-breaks-out-of-the-switch', 'mw4_06', 2, 'C06',
    "UDPSession.packetInput leaves the type switch with 'break' instead of 'return' after a CRC mismatch: the failed datagram goes on to kcpInput with its CRC prefix attached",
    change="sess.go UDPSession.packetInput (CRC branch): return -> break after counting InCsumErrors",
    needs="the dialled path and a CRC-type cipher; with FEC on and particular sequence ids the garbage reaches the FEC decoder or the OOB handler",
    checks={'C06 quick': "caught: 371 runs, C06/no-effect/counter-changed 'counter InPkts went from 0 to 1 after a datagram failing the integrity check'"})

add('C09-entropy-source-unlocks-before-the-copy', 'mw4_09', 1, 'C09',
    "rngAES.Read releases its mutex right after updateSeed: the in-place AES step and the copy-out run unlocked, two sessions can hand out the same 16 bytes as nonce",
    change="entropy.go rngAES.Read: r.mutex.Unlock() moved up to directly after r.updateSeed()",
    needs="two sessions drawing a nonce at overlapping moments (real parallelism inside the entropy source)",
    also=['C14'],
    checks={'C09 quick': 'missed (the serialised modes replace the entropy source by a seeded stream, and nothing preempts inside Read there anyway)',
            'C14 quick': 'missed (the racing write is inside the AES assembly routine, which the race detector does not instrument; the Go-visible accesses are reads)'},
    notes="Missed. In response the free-running race mode now runs the library's OWN entropy sources (NewEntropyAES / NewEntropyChacha8 in turn) instead of the harness's seeded stream - the property names the entropy source among what sessions share - but this particular change stays invisible to the race detector, and the race mode has no nonce-uniqueness oracle. Recorded as a limit.")

add('C14-sm4-one-cipher-instance-for-both-directions', 'mw4_09', 2, 'C14',
    "NewSM4BlockCrypt uses one sm4 cipher object for encryption and decryption again (the inverse of fix 8c2a441)",
    change="crypt.go NewSM4BlockCrypt: the separate decrypt-side sm4.NewCipher dropped",
    needs="the SM4 cipher and an incoming datagram decrypted while an outgoing one is being encrypted",
    checks={'C14 quick': 'caught: 7 runs, C14/race/decrypt16|encrypt16 (948 reports of the race detector in one run)'})

add('C16-caches-not-reallocated-when-the-group-shrinks', 'mw4_16', 1, 'C16',
    "on adopting the peer's ratio the decoder reallocates decodeCache / flagCache only if the new group is LARGER: after shrinking, Reed-Solomon is handed too many slots and recovers nothing",
    change="fec.go decode (auto-tune branch): the caches are reallocated only if dec.shardSize > len(dec.decodeCache)",
    needs="a receiver configured with a larger group than the sender, completed convergence, then a group with a lost data packet",
    checks={'C16 quick': 'caught: 376 runs, C16/fec-completeness/missing-not-reconstructed (after convergence)'})

# round-4 duplicates / variants
for _id, _d in {
    'C10-parity-size-not-reset-on-skipped-group': ['mw4_10 mutant2 (C10 agent, round 4)'],
    'C04-stale-window-on-retransmission': ['mw4_04 mutant1 (C04 agent, round 4; same effect through the xmit == 0 branch)'],
    'C10-setmtu-ignores-segments-in-flight': ['mw4_05 mutant2 (C05 agent, round 4; the in-flight test dropped instead of duplicated)'],
    'C16-lazy-decoder-guard-wrong-field': ['mw4_16 mutant2 (C16 agent, round 4)'],
}.items():
    for _e in E:
        if _e['id'] == _id:
            _e['duplicate_reports'] += _d
