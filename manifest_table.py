# included by gen_manifest.py: additional checks and the not-applicable list
NOTYET = "check not built yet in this session (work in progress; see DESIGN.md section 8 for the design)"
for p in props:
    if p["id"] not in CHECKS:
        NA[p["id"]] = NOTYET
NA["C08"] = "Not applicable to deterministic simulation: Encrypt/Decrypt are pure functions of (cipher, key, bytes, aliasing); the quantifier is over inputs and configurations only - no schedule, clock, fault or history to search (DESIGN.md section 9). Wire-incompatible cipher changes are caught under C09 by the independent crypto/cipher decoder on every simulated datagram."
NA["C20"] = "Not applicable to deterministic simulation: a sequential container with no concurrency, time or I/O; 'every operation sequence from every layout' is bounded model checking / model-based testing, a different family (DESIGN.md section 9). FIFO defects reachable through protocol traffic surface as C01/C04 violations."
