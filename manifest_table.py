# included by gen_manifest.py: additional checks and the not-applicable list
check("C02", "exploration",
      "Bounded liveness by seeded search plus an enumerated fault prefix: for drawn configurations of two raw cores ALL 4^K fate assignments of the first K datagrams (K=4 quick, 6 thorough) are run, and sampled runs (raw cores and full sessions) suffer seeded faults/outages up to a seeded instant; after the last fault everything written must be read and both backlogs be zero within an analytic budget derived from the retransmission and probe timers. The fate prefix is enumerated, the rest of the space (configurations, later faults, schedules) is sampled - hence exploration.",
      TB + " Liveness is judged only after the last fault with readers that keep reading; the budget is an over-approximation, not a tuned constant.",
      "deterministic simulation with fault injection: enumerated fate prefix + seeded outage/heal search, bounded-liveness oracle with analytic budget", "DESIGN.md 8/C02")
check("C04", "exploration",
      "After every harness event (API call or processed datagram) of seeded simulated runs the oracle compares queue occupancies (hook H1) and the wnd/sn fields of every emitted segment (independent decoder) with the windows the harness configured: occupancy, truthful advertised window, outstanding <= send window, new sn only within min(send window, last delivered window, congestion window), nothing new after a timeout loss until the oldest segment is acknowledged. Includes a scripted adversary that ignores the window and forges una/sn/wnd.",
      TB + " The congestion window is read through hook H1 (not visible on the wire). One recorded finding (known_findings.txt).",
      "deterministic simulation with fault injection: per-step window-discipline invariants over seeded cooperative and forging-peer traffic", "DESIGN.md 8/C04")
check("C05", "exploration",
      "Seeded datagram-content fault injection inside the simulation: noise, truncations and structurally valid segments with every header field forged are fed into live raw cores (and arrive at sessions in the generic fault runs); any library panic on any goroutine (worker journal attributes process deaths to their run), occupancy beyond the C04 limits or pooled buffers held beyond the windows is a violation.",
      TB + " As strong as the mutation grammar; not coverage-guided fuzzing.",
      "deterministic simulation with fault injection: seeded forged/mutated datagrams interleaved with live traffic, survival and bounded-holdings oracles", "DESIGN.md 8/C05")
check("C09", "exploration",
      "Every datagram of every seeded simulated run (all ciphers, FEC ratios, MTUs, write patterns, faults, retransmissions, probes, parity, post-Close flushes) is decoded by an independent decoder written from the README: framing must parse exactly, CRC/tag verify, FEC ids/types/size fields agree, parity equal the Reed-Solomon code recomputed by the harness, nonces and datagrams never repeat, and the byte stream reassembled from the wire alone must equal what was written.",
      TB, "deterministic simulation with fault injection: independent wire decoder + wire-only stream reassembly over all simulated histories", "DESIGN.md 8/C09")
check("C10", "exploration",
      "Seeded search over MTU values (any int), times (before and during traffic, growing and shrinking, data queued and in flight), overhead combinations and OOB sizes; every datagram handed to the simulated PacketConn and every size handed to a raw core's output callback is measured against the MTU in force; a refused value must leave the previous MTU in force; library panics (including worker-process deaths attributed through the journal) are violations.",
      TB + " One recorded finding (known_findings.txt).",
      "deterministic simulation with fault injection: seeded SetMtu schedules against live traffic, size oracle on every emitted datagram, crash attribution", "DESIGN.md 8/C10")
check("C15", "exploration",
      "Every seeded simulated run ends with closing sessions, listener and transports in a seeded order (stratum 'close': at a seeded instant in mid-transfer, with calls blocked), a grace period, one more hour of virtual time, and a census of the synctest bubble's goroutines and of scheduled update callbacks; every pooled buffer of every run passes through a sanitizer (ownership map, poison, FIFO quarantine) installed through hook H4.",
      TB + " A buffer never recycled is not reported. Read-after-recycle is seen only when poison reaches the wire decoder or a reader.",
      "deterministic simulation with fault injection: seeded Close schedules, goroutine/callback census at bubble end, buffer-pool sanitizer", "DESIGN.md 8/C15")
check("C18", "exploration",
      "Clean-path half: seeded FIFO constant-delay runs (raw cores under both drivers, and sessions) that satisfy the stated preconditions; every data sn must appear exactly once on the wire and the retransmission counters stay 0. Bound half: the RTO is read after every step of every run of every stratum, including an adversary acknowledging with forged, wrapped and delayed timestamps, and must lie in [30|100, 60000].",
      TB, "deterministic simulation with fault injection: precondition-satisfying clean-path search with exactly-once wire oracle; RTO-bound invariant under forged ack timing", "DESIGN.md 8/C18")

check("C07", "fault_enumeration",
      "For every (dataShards, parityShards) with d+p <= 5 (quick) / <= 6 (thorough), 5 payload-size vectors, 3 placements in the id space (first group, middle, last group before the wrap value) and 3 duplicate modes, ALL subsets of a group's packets x ALL arrival orders are fed to the real decoder (packets from the real encoder) and checked against a group-set reference model: exact reconstruction of exactly the missing data packets at the first moment d distinct packets have arrived, and nothing but original data packets ever returned. Larger ratios (to d+p=255), interleaved groups, duplicates, reordering, parity skipping, ids beyond 2^31 and across the wrap, and whole sessions with parity-aware targeted loss are sampled.",
      TB + " The enumeration is complete for the small-group space stated; everything beyond it is sampled.",
      "deterministic simulation with fault injection: exhaustive enumeration of arrival subsets and orders for small FEC groups against a reference model, seeded channel faults beyond", "DESIGN.md 8/C07")
check("C16", "exploration",
      "Seeded search over (sender ratio, receiver ratio) pairs, starting ids and phases, and loss/duplication/reordering patterns before convergence - including the targeted pattern that hides every contradicting packet from the receiver - with the real encoder, decoder and auto-tuner: convergence to the sender's ratio within the stated run length, recovery from then on, stability under matching ratios, and at session level an intact stream under mismatch.",
      TB + " One recorded finding (known_findings.txt): fabricated segments can enter the stream before convergence.",
      "deterministic simulation with fault injection: seeded ratio-mismatch search at codec and session level, convergence/stability/soundness oracles", "DESIGN.md 8/C16")

check("C03", "exploration",
      "Seeded search over pause points and pause lengths of the reading application (up to 20 virtual minutes), receive windows 1..64, congestion control on/off and loss windows in which every ACK-only / WASK / WINS datagram (picked by the independent decoder) is dropped; oracles: stream prefix, bounded buffering at both ends while stalled, no new sequence number on the wire while the last window shown to the sender is 0, and completion within an analytic budget once the reader has resumed and the targeted loss has ended.",
      TB + " Completion is judged after the writers have stopped, so that the budget counts queued segments exactly.",
      "deterministic simulation with fault injection: seeded reader stalls with content-targeted loss of control datagrams, standstill / bounded-buffering / resumption oracles", "DESIGN.md 8/C03")
check("C12", "exploration",
      "Metamorphic: every seeded run of two raw cores is executed twice in one bubble - baseline, and shifted by per-direction sequence-number offsets and a clock offset drawn so that 2^32 or 2^31 falls anywhere in the transfer - and the complete normalised datagram traces, emission times and delivered data are compared event by event (Mode K is exactly deterministic, so the oracle is sharp). Full sessions whose cores, clock and FEC encoders start just before their wrap points, and codec streams around the FEC id wrap, are decided by the stream/wire/codec oracles.",
      TB + " sn/ts of WASK/WINS segments are don't-care fields and are not compared.",
      "deterministic simulation with fault injection: metamorphic shifted re-execution with exact trace comparison; wrap-positioned session and codec runs", "DESIGN.md 8/C12")
check("C13", "exploration",
      "Seeded search over interleavings of 1-3 blocked readers, 1-3 blocked writers and 0-2 blocked acceptors with data arrival, window opening, deadline changes of every kind, Close and transport errors at seeded virtual instants; after every step a reference model of a blocking endpoint is evaluated at quiescence (no pending call whose outcome is enabled; every return legal at its return time, a timeout never early; exactly-once intact messages; Close semantics).",
      TB + " At quiescence all goroutines are durably blocked, so a pending-but-enabled call is a missed wake-up, not timing. Where the runtime (not the seed) chooses among several enabled outcomes, the scenario avoids enabling two at once or records only the class.",
      "deterministic simulation with fault injection: seeded stimulus schedules against blocked callers, reference model of a blocking endpoint evaluated at every quiescence", "DESIGN.md 8/C13")

check("C17", "exploration",
      "Seeded search over deadline sequences, concurrent submitters, worker counts, self-re-submitting tasks and Close points against the real TimedSched on the fake clock, with yield points in Put / prepend / workers parked and released in tape order so that timer expiries and task arrivals are ordered both ways; per-task exactly-once, never-early and lateness-bound oracle, and a goroutine census after Close.",
      TB + " The asynctimerchan=1 half of the quantifier cannot be simulated (synctest refuses it) and is not covered.",
      "deterministic simulation with fault injection: real scheduler on a fake clock, seeded deadline patterns and yield-point interleavings, per-task execution oracle", "DESIGN.md 8/C17")

check("C11", "exploration",
      "Seeded search over numbers of peers on one listener socket (up to 160, beyond the accept backlog), connect / close / reconnect orders, acceptor stalls and injected foreign, stale, re-addressed and forged datagrams under loss, duplication and reordering; keyed per-peer payload streams make any foreign byte attributable; Accept results are checked per (address, conversation).",
      TB + " Datagrams whose first segment carries sn 0 with another conversation id legitimately start a new conversation and are exercised only as genuine reconnects.",
      "deterministic simulation with fault injection: multi-peer listener simulation with datagram re-addressing/staleness/forgery injection, per-peer keyed stream and Accept oracles", "DESIGN.md 8/C11")
check("C19", "exploration",
      "Seeded search over interleavings of SendOOB (every length 0..GetOOBMaxSize()+1) with Write traffic in both directions under the full fault swarm, handlers present / absent / replaced by nil, one or several sessions on a listener; every handler argument must equal a payload sent to that session and arrive no more often than the network delivered it; refused calls put nothing on the wire; stream, wire (FEC id continuity around OOB) and pool oracles keep holding.",
      TB, "deterministic simulation with fault injection: seeded OOB/stream interleavings with tagged payloads, handler-argument and isolation oracles", "DESIGN.md 8/C19")

check("C06", "exploration",
      "At seeded quiescent points of seeded faulty traffic (every cipher, FEC on/off, listener and dialled paths) one datagram guaranteed to fail the integrity check is injected - built from captured genuine datagrams with the harness's own cipher - between two deep reflection snapshots of every session and the listener and two readings of the SNMP counters; any difference other than the checksum-error counter, any emitted datagram, returning call or new session is a violation, reported with the field path that changed.",
      TB + " The snapshot is generic (reflection), skipping only channels, funcs, sync primitives and foreign objects.",
      "deterministic simulation with fault injection: guaranteed-detectable corruptions of captured datagrams injected at quiescence, deep-state snapshot comparison", "DESIGN.md 8/C06")

check("C14", "exploration",
      "Reduced strength, stated plainly: seeded free-running workloads (no driver serialisation) over all supported public methods of sessions and listeners with traffic under faults on the fake clock, binary built with -race at GOMAXPROCS=16; the Go race detector is the oracle. The seed fixes workload, configuration and fault rates but not the interleaving, because a serialising driver (synctest.Wait between steps) totally orders steps by happens-before and blinds the detector.",
      "Trusted base: the Go race detector (happens-before), testing/synctest fake clock. Not a seeded schedule search: interleavings are the runtime's. The in-memory transport adds happens-before edges between sender and receiver goroutines.",
      "simulated workloads under the Go race detector (free-running mode of the simulator; interleaving not seeded)", "DESIGN.md 8/C14")

NOTYET = "check not built yet in this session (work in progress; see DESIGN.md section 8 for the design)"
for p in props:
    if p["id"] not in CHECKS:
        NA[p["id"]] = NOTYET
NA["C08"] = "Not applicable to deterministic simulation: Encrypt/Decrypt are pure functions of (cipher, key, bytes, aliasing); the quantifier is over inputs and configurations only - no schedule, clock, fault or history to search (DESIGN.md section 9). Wire-incompatible cipher changes are caught under C09 by the independent crypto/cipher decoder on every simulated datagram."
NA["C20"] = "Not applicable to deterministic simulation: a sequential container with no concurrency, time or I/O; 'every operation sequence from every layout' is bounded model checking / model-based testing, a different family (DESIGN.md section 9). FIFO defects reachable through protocol traffic surface as C01/C04 violations."
