package sim

import (
	"time"

	kcp "github.com/xtaci/kcp-go/v5"
)

// IOMode describes how a writer or reader actor sizes its calls.
type IOMode struct {
	Kind     int   // 0 mixed, 1 tiny, 2 around-mss, 3 multi-mss, 4 large
	PausePM  int   // per-mille chance of a pause before a call
	PauseUs  int   // maximum pause
	Buffers  bool  // writer: use WriteBuffers with a vector
	StallAt  int64 // reader: stop reading at this offset (0 = never) ...
	StallFor time.Duration
	OnStall  func(until time.Duration) // called when the stall begins
}

func drawSize(t *Tape, stream string, kind int, mss int) int {
	if mss < 1 {
		mss = 1
	}
	if kind == 0 {
		kind = 1 + t.Choose(stream, 4)
	}
	switch kind {
	case 1:
		return 1 + t.Choose(stream, 16)
	case 2:
		return max(1, mss-2+t.Choose(stream, 5))
	case 3:
		return 1 + t.Choose(stream, 6*mss)
	default:
		return 1 + t.Choose(stream, 65536)
	}
}

func (ep *Endpoint) mss() int {
	fc := ep.W.connFEC[ep.Conn.id]
	m := ep.MTU - ep.W.Overhead(fc[0] > 0 && fc[1] > 0) - 24
	if m < 1 {
		m = 1
	}
	return m
}

// StartWriter makes the endpoint's writer actor write Out.Target bytes.
func (ep *Endpoint) StartWriter(mode IOMode) {
	s := ep.W.S
	if ep.Writer == nil {
		ep.Writer = s.NewActor("writer:" + ep.Name)
	}
	if ep.Out.Target == 0 {
		ep.WriterDone = true
		return
	}
	stream := "actor/" + ep.Writer.Name
	var next func()
	next = func() {
		if ep.WriterDone || ep.CloseInvoked {
			return
		}
		pause := time.Duration(0)
		if s.Tape.Chance(stream, mode.PausePM) {
			pause = time.Duration(s.Tape.Range(stream, 1, mode.PauseUs)) * time.Microsecond
		}
		s.After(pause, "write:"+ep.Name, func() {
			if ep.WriterDone || ep.CloseInvoked || ep.Writer.Busy() {
				return
			}
			remaining := ep.Out.Target - ep.Out.Written
			size := int64(drawSize(s.Tape, stream, mode.Kind, ep.mss()))
			if size > remaining {
				size = remaining
			}
			data := make([]byte, size)
			flowFill(ep.Out.Key, ep.Out.Written, data)
			var vec [][]byte
			if mode.Buffers && size > 1 {
				// split into a vector of 2-4 slices
				k := 2 + s.Tape.Choose(stream, 3)
				rest := data
				for i := 0; i < k-1 && len(rest) > 1; i++ {
					cut := 1 + s.Tape.Choose(stream, len(rest)-1)
					vec = append(vec, rest[:cut])
					rest = rest[cut:]
				}
				vec = append(vec, rest)
			}
			ep.Out.Offered = ep.Out.Written + size
			s.L.Logf("call %s Write(%d) at=%d", ep.Name, size, ep.Out.Written)
			sess := ep.Sess
			ep.Writer.Do("Write", func() any {
				var n int
				var err error
				if vec != nil {
					n, err = sess.WriteBuffers(vec)
				} else {
					n, err = sess.Write(data)
				}
				return ioRes{n: n, err: err}
			}, func(res any) {
				if pr, ok := res.(PanicResult); ok {
					s.Fail("C05", "survive", "panic-in-write", "Write panicked: %s at %s", pr.Value, pr.Stack)
					ep.WriterDone = true
					return
				}
				r := res.(ioRes)
				ep.W.retLog()("ret  %s Write -> %d %v", ep.Name, r.n, r.err)
				if r.err != nil {
					ep.Out.Offered = ep.Out.Written
					if r.n != 0 {
						s.Fail("C01", "stream", "write-error-with-bytes", "%s: Write returned n=%d together with error %v", ep.Name, r.n, r.err)
					}
					if isTimeout(r.err) {
						next()
						return
					}
					ep.WriteErr = r.err
					ep.WriterDone = true
					return
				}
				if int64(r.n) != size {
					s.Fail("C01", "stream", "short-write", "%s: Write of %d bytes returned %d without error", ep.Name, size, r.n)
				}
				ep.Out.Written += int64(r.n)
				if ep.Out.Written >= ep.Out.Target {
					ep.WriterDone = true
					return
				}
				next()
			})
		})
	}
	next()
}

// StartReader makes the endpoint's reader actor read until In.Target bytes have
// been returned, checking the prefix property (O-stream) on every return.
func (ep *Endpoint) StartReader(mode IOMode) {
	s := ep.W.S
	if ep.Reader == nil {
		ep.Reader = s.NewActor("reader:" + ep.Name)
	}
	if ep.In == nil || ep.In.Target == 0 {
		ep.ReaderDone = true
		return
	}
	stream := "actor/" + ep.Reader.Name
	stalled := false
	var next func()
	next = func() {
		if ep.ReaderDone || ep.CloseInvoked {
			return
		}
		pause := time.Duration(0)
		if mode.StallAt > 0 && !stalled && ep.In.Read >= mode.StallAt {
			stalled = true
			pause = mode.StallFor
			s.Stats.Probe("reader-stalled")
			if mode.OnStall != nil {
				mode.OnStall(s.Now() + pause)
			}
			s.L.Logf("reader %s stalls for %v at offset %d", ep.Name, pause, ep.In.Read)
		} else if !ep.DrainFast && s.Tape.Chance(stream, mode.PausePM) {
			pause = time.Duration(s.Tape.Range(stream, 1, mode.PauseUs)) * time.Microsecond
		}
		s.After(pause, "read:"+ep.Name, func() {
			if ep.ReaderDone || ep.CloseInvoked || ep.Reader.Busy() {
				return
			}
			size := drawSize(s.Tape, stream, mode.Kind, ep.Peer.mssOr(ep))
			if ep.DrainFast {
				size = 65536
			}
			buf := make([]byte, size)
			sess := ep.Sess
			s.L.Logf("call %s Read(%d)", ep.Name, size)
			ep.Reader.Do("Read", func() any {
				n, err := sess.Read(buf)
				return ioRes{n: n, err: err, buf: buf}
			}, func(res any) {
				if pr, ok := res.(PanicResult); ok {
					s.Fail("C05", "survive", "panic-in-read", "Read panicked: %s at %s", pr.Value, pr.Stack)
					ep.ReaderDone = true
					return
				}
				r := res.(ioRes)
				ep.W.retLog()("ret  %s Read -> %d %v", ep.Name, r.n, r.err)
				if r.err != nil {
					if r.n != 0 {
						s.Fail("C01", "stream", "read-error-with-bytes", "%s: Read returned n=%d together with error %v", ep.Name, r.n, r.err)
					}
					if isTimeout(r.err) {
						next()
						return
					}
					ep.ReadErr = r.err
					ep.ReaderDone = true
					return
				}
				ep.CheckRead(r.buf, r.n)
				if ep.In.Read >= ep.In.Target {
					ep.ReaderDone = true
					return
				}
				next()
			})
		})
	}
	next()
}

func (ep *Endpoint) mssOr(other *Endpoint) int {
	if ep == nil {
		return other.mss()
	}
	return ep.mss()
}

// CheckRead is the O-stream oracle: the bytes returned are the next bytes of
// what the peer's writer had accepted.
func (ep *Endpoint) CheckRead(buf []byte, n int) {
	s := ep.W.S
	fl := ep.In
	if n == 0 && len(buf) > 0 {
		s.Fail("C01", "stream", "zero-read", "%s: Read returned 0 bytes and no error", ep.Name)
		return
	}
	if n < 0 || n > len(buf) {
		s.Fail("C01", "stream", "read-count", "%s: Read returned n=%d for a buffer of %d", ep.Name, n, len(buf))
		return
	}
	if fl.NoCheck {
		fl.Read += int64(n)
		return
	}
	ep.W.noteWrongRatioRecovery()
	if ep.RecoveredUnderWrongRatio {
		// recorded finding (known_findings.txt): a packet "recovered" under the wrong
		// FEC ratio is a Reed-Solomon interpolation of genuine packets that keeps
		// their shared header bytes, passes KCP's checks and enters the stream
		if fl.Read+int64(n) > fl.Offered || flowCheck(fl.Key, fl.Read, buf[:n]) >= 0 {
			s.Fail("C01", "stream", "corrupted-after-recovery-under-wrong-fec-ratio", "%s: Read of %d bytes at stream offset %d returned bytes that were never written; this endpoint had counted a FEC recovery while decoding under a ratio different from its peer's", ep.Name, n, fl.Read)
			return
		}
	}
	if ep.StaleFECRisk && kcp.DefaultSnmp.Copy().FECRecovered > ep.FECRecoveredAtStart {
		// recorded finding (known_findings.txt): after a reconnect from the same
		// address, FEC shards left over from the old conversation combine with
		// shards of the new one; the reconstruction can carry the new conversation
		// id and old payload
		if fl.Read+int64(n) > fl.Offered || flowCheck(fl.Key, fl.Read, buf[:n]) >= 0 {
			if ep.W.ReportCrossConv {
				s.Fail("C01", "stream", "corrupted-after-fec-recovery-across-conversations", "%s: Read of %d bytes at stream offset %d returned bytes that were never written in this conversation; the address pair hosted an earlier conversation and a FEC recovery was counted since the reconnect", ep.Name, n, fl.Read)
				return
			}
			s.Stats.Probe("known-finding-met:fec-recovery-across-conversations")
			fl.NoCheck = true // the stream of this conversation is lost to the finding
			fl.Read += int64(n)
			return
		}
	}
	if fl.Read+int64(n) > fl.Offered {
		s.Fail("C01", "stream", "read-beyond-written", "%s: reader has %d bytes but only %d were ever handed to Write", ep.Name, fl.Read+int64(n), fl.Offered)
		return
	}
	if i := flowCheck(fl.Key, fl.Read, buf[:n]); i >= 0 {
		if pr := poisonRun(buf[:n]); pr >= 4 {
			s.Fail("C15", "pool", "poison-reached-reader", "%s: %d consecutive bytes of recycled-buffer poison returned by Read at offset %d", ep.Name, pr, fl.Read+int64(i))
		}
		s.Fail("C01", "stream", "prefix-mismatch", "%s: byte at stream offset %d differs from what was written (Read of %d bytes at offset %d)", ep.Name, fl.Read+int64(i), n, fl.Read)
		return
	}
	fl.Read += int64(n)
}
