package sim

import (
	"fmt"
	"time"

	kcp "github.com/xtaci/kcp-go/v5"
)

// C12: behaviour is invariant under sequence-number and clock wrap-around.
//
// Scenario "core-wrap" (Mode K, metamorphic): the same run - same configuration,
// same workload, same fates, same relative times - is executed twice in one
// bubble: baseline (initial sn 0, core clock starting at 0) and shifted
// (initial sn X / Y per direction, clock offset C ms, drawn so that 2^32 or
// 2^31 falls anywhere inside the transfer). Mode K is exactly deterministic, so
// the oracle is sharp: after subtracting the shifts from sn / una / ts, the two
// datagram traces and the delivered data must be identical, event by event, at
// identical relative times.

type wrapRec struct {
	at   time.Duration
	what string
}

func nearBoundary(t *Tape, st string, span int) uint32 {
	b := uint32(0) // 2^32
	if t.Chance(st, 500) {
		b = 0x80000000
	}
	switch t.Choose(st, 4) {
	case 0:
		return b - uint32(t.Choose(st, span+1)) // boundary inside the transfer
	case 1:
		return b - 1
	case 2:
		return b - uint32(span) - uint32(t.Choose(st, 3)) // at the very end
	default:
		return b - uint32(t.Choose(st, 4)) // at the very beginning
	}
}

func scenCoreWrap(r *Run) {
	s := r.S
	s.PanicProp = "C05"
	t := s.Tape
	const cs, ws = "cfg", "wrap"
	o := DrawCoreOpt(t, r.Spec.Tier)
	// keep the run moderately short: the trace is compared event by event
	if o.BytesA > 200000 {
		o.BytesA = 200000
	}
	if o.BytesB > 200000 {
		o.BytesB = 200000
	}
	segsA := int(o.BytesA)/max(1, o.CfgA.mss()) + 4
	segsB := int(o.BytesB)/max(1, o.CfgB.mss()) + 4
	var X, Y uint32 // first sn of a's and of b's sending direction
	switch t.Choose(ws, 4) {
	case 0:
		X = nearBoundary(t, ws, segsA)
	case 1:
		Y = nearBoundary(t, ws, segsB)
	case 2:
		X, Y = nearBoundary(t, ws, segsA), nearBoundary(t, ws, segsB)
	default:
		X, Y = uint32(splitmixFrom(t, ws)), uint32(splitmixFrom(t, ws))
	}
	// clock shift in whole milliseconds, so that the sub-millisecond phase of
	// every truncation in the core clock is the same in both passes
	var C uint32
	estMs := 2000 + t.Skewed(ws, 0, 60000)
	switch t.Choose(ws, 4) {
	case 0:
		C = 0
	case 1:
		C = nearBoundary(t, ws, estMs)
	case 2:
		C = uint32(0) - uint32(t.Choose(ws, 50)) // wraps within the first milliseconds
	default:
		C = uint32(splitmixFrom(t, ws))
	}
	r.Res.Config = fmt.Sprintf("%s | shift snA=%d snB=%d clock=%dms", o, X, Y, C)
	s.L.Logf("config %s", r.Res.Config)
	s.MaxSteps = 4000000
	s.MaxVirtual = 200 * time.Hour

	rec := t.Record
	var traces [2][]wrapRec
	var firstRecord map[string][]uint32
	for pass := 0; pass < 2 && s.Viol == nil; pass++ {
		// identical decisions in both passes: pass 1 replays the tape pass 0 recorded
		if pass == 1 {
			firstRecord = rec()
			saved := s.Tape
			s.Tape = NewReplayTape(saved.Seed, firstRecord)
			defer func() { s.Tape = saved }()
			// skip the draws made before the passes started (configuration): they are
			// part of the recorded streams, so consume them again identically
			_ = DrawCoreOpt(s.Tape, r.Spec.Tier)
			replayWrapDraws(s.Tape, ws, segsA, segsB)
		}
		sa, sb, cc := uint32(0), uint32(0), uint32(0)
		if pass == 1 {
			sa, sb, cc = X, Y, C
		}
		s.heap = s.heap[:0]
		s.Invariants = nil
		s.seq = 0
		s.resSeq = 0
		s.epoch = time.Now()
		w := NewCoreWorld(s, false, time.Duration(cc)*time.Millisecond)
		w.Links.Default = o.Link
		ca, cb := o.CfgA, o.CfgB
		ca.ISNSnd, ca.ISNRcv = sa, sb
		cb.ISNSnd, cb.ISNRcv = sb, sa
		a, b := w.AddPair(ca, cb, 0x77)
		a.Target, b.Target = o.BytesA, o.BytesB
		tr := &traces[pass]
		// normalised trace of everything that crosses the wire and reaches a reader
		baseEmit := s.OnEmit
		s.OnEmit = func(p *OutPkt) {
			baseEmit(p)
			segs, _ := ParseSegs(p.Data)
			from := "a"
			snShift, unaShift := sa, sb
			if p.Src == b.Conn {
				from, snShift, unaShift = "b", sb, sa
			}
			desc := fmt.Sprintf("emit %s len=%d", from, len(p.Data))
			for _, sg := range segs {
				snv := sg.Sn
				if sg.Cmd == wCmdPush {
					snv -= snShift
				} else if sg.Cmd == wCmdAck {
					snv -= unaShift // an ACK names a sequence number of the other direction
				}
				ts := sg.Ts
				if sg.Cmd == wCmdPush || sg.Cmd == wCmdAck {
					ts -= cc
				} else {
					// WASK / WINS carry no sequence number or timestamp of their own: the
					// fields hold whatever the previously encoded segment left there and
					// the receiver ignores them. They are not compared.
					snv, ts = 0, 0
				}
				desc += fmt.Sprintf(" [%d frg=%d wnd=%d ts=%d sn=%d una=%d len=%d h=%s]", sg.Cmd, sg.Frg, sg.Wnd, ts, snv, sg.Una-unaShift, sg.Len, hashBytes(sg.Data))
			}
			*tr = append(*tr, wrapRec{s.Now(), desc})
		}
		a.StartTicks()
		b.StartTicks()
		a.StartSender(o.KindA, o.PausePM, o.PauseUs)
		b.StartSender(o.KindB, o.PausePM, o.PauseUs)
		s.MaxVirtual = s.Now() + 20*time.Minute
		s.Run(w.Done)
		*tr = append(*tr, wrapRec{s.Now(), fmt.Sprintf("end done=%v recvA=%d recvB=%d msgsA=%d msgsB=%d", w.Done(), a.recvBytes, b.recvBytes, a.recvMsgs, b.recvMsgs)})
		if pass == 1 {
			crossed := func(start uint32, n int) bool {
				end := start + uint32(n)
				return (start > end) || (start < 0x80000000 && end >= 0x80000000)
			}
			if crossed(X, len(a.xmit)) || crossed(Y, len(b.xmit)) {
				s.Stats.Probe("sn-boundary-crossed")
			}
			if crossed(C, int(s.Now()/time.Millisecond)) {
				s.Stats.Probe("clock-boundary-crossed")
			}
		}
		if a.recvBytes+b.recvBytes > 0 {
			r.Res.Progress = true
		}
		s.CapHit = ""
	}
	if s.Viol == nil {
		base, sh := traces[0], traces[1]
		n := min(len(base), len(sh))
		for i := 0; i < n; i++ {
			if base[i].what != sh[i].what || base[i].at != sh[i].at {
				s.Fail("C12", "metamorphic", "trace-differs", "event %d differs after subtracting the shifts (snA=%d snB=%d clock=%dms): baseline %v %q, shifted %v %q", i, X, Y, C, base[i].at, clip(base[i].what, 300), sh[i].at, clip(sh[i].what, 300))
				break
			}
		}
		if s.Viol == nil && len(base) != len(sh) {
			s.Fail("C12", "metamorphic", "trace-length-differs", "baseline has %d events, shifted run has %d (snA=%d snB=%d clock=%dms)", len(base), len(sh), X, Y, C)
		}
	}
	s.Stats.ProbeN("trace-events-compared", len(traces[0]))
	r.Res.Completed = s.Viol == nil
	r.Res.VirtualMs = int64(s.Now() / time.Millisecond)
}

// replayWrapDraws consumes, from a replay tape, the draws scenCoreWrap makes on
// the "wrap" stream before the passes start, in the same order.
func replayWrapDraws(t *Tape, ws string, segsA, segsB int) {
	switch t.Choose(ws, 4) {
	case 0:
		nearBoundary(t, ws, segsA)
	case 1:
		nearBoundary(t, ws, segsB)
	case 2:
		nearBoundary(t, ws, segsA)
		nearBoundary(t, ws, segsB)
	default:
		splitmixFrom(t, ws)
		splitmixFrom(t, ws)
	}
	estMs := 2000 + t.Skewed(ws, 0, 60000)
	switch t.Choose(ws, 4) {
	case 0:
	case 1:
		nearBoundary(t, ws, estMs)
	case 2:
		t.Choose(ws, 50)
	default:
		splitmixFrom(t, ws)
	}
}

func clip(s string, n int) string {
	if len(s) > n {
		return s[:n] + "..."
	}
	return s
}

var _ = kcp.IKCP_OVERHEAD

func init() {
	Register("core-wrap", true, scenCoreWrap)
}
