package proto

// Violation is a property violation found by an oracle.
type Violation struct {
	Prop   string `json:"property"`
	Oracle string `json:"oracle"`
	Detail string `json:"detail"`
	Sig    string `json:"signature"`
}

func (v *Violation) String() string { return v.Sig + ": " + v.Detail }

// RunSpec describes one simulated run; it is the unit a worker executes.
type RunSpec struct {
	Prop     string              `json:"property"`
	Scenario string              `json:"scenario"`
	Seed     uint64              `json:"seed"`
	Tier     string              `json:"tier"`
	Replay   map[string][]uint32 `json:"tape,omitempty"` // non-nil: replay this tape
	IsReplay bool                `json:"is_replay,omitempty"`
	MaxSteps int                 `json:"max_steps,omitempty"`
	WantLog  bool                `json:"want_log,omitempty"`
	WantTape bool                `json:"want_tape,omitempty"`
	Stratum  string              `json:"stratum,omitempty"` // scenario-specific sub-family
}

// RunResult is what a worker reports for one run.
type RunResult struct {
	Prop      string              `json:"property"`
	Scenario  string              `json:"scenario"`
	Stratum   string              `json:"stratum,omitempty"`
	Seed      uint64              `json:"seed"`
	Viol      *Violation          `json:"violation,omitempty"`
	Harness   string              `json:"harness_error,omitempty"`
	CapHit    string              `json:"cap_hit,omitempty"`
	Steps     int                 `json:"steps"`
	VirtualMs int64               `json:"virtual_ms"`
	LogHash   string              `json:"log_hash"`
	ShapeHash string              `json:"shape_hash"`
	LogLines  int                 `json:"log_lines"`
	Draws     int                 `json:"draws"`
	Config    string              `json:"config"`
	Faults    map[string]int      `json:"faults,omitempty"`
	Probes    map[string]int      `json:"probes,omitempty"`
	Foreign   map[string]int      `json:"foreign,omitempty"`
	Progress  bool                `json:"progress"`        // the workload made progress
	Completed bool                `json:"completed"`       // the scenario ran to its natural end
	Cases     int                 `json:"cases,omitempty"` // enumerated sub-cases inside this run
	Tape      map[string][]uint32 `json:"tape,omitempty"`
	Log       []string            `json:"log,omitempty"`
	WallUs    int64               `json:"wall_us"`
	Known     string              `json:"known,omitempty"`
}

// Job is a batch of runs handed to one worker process.
type Job struct {
	Specs   []RunSpec `json:"specs"`
	Out     string    `json:"out"`     // results file (JSON lines)
	Journal string    `json:"journal"` // BEGIN/END lines, so a crash identifies its run
	// RunLimitS: real seconds one run may take before the worker declares it hung,
	// dumps every goroutine to stderr, journals HANG and exits (0 = no limit).
	RunLimitS int `json:"run_limit_s,omitempty"`
}
