package sim

import (
	"encoding/binary"
	"fmt"
	"sync"
	"time"
)

// C19: out-of-band messages are delivered intact or not at all, never to another
// session, and never disturb the reliable stream.
//
// Scenario "oob" (Mode S): a bidirectional transfer with FEC on; OOB sender
// actors on one or both sides interleave SendOOB - every payload length from 0
// to GetOOBMaxSize()+1 - with the Write traffic at seeded rates; handlers are
// registered on one or both sides; faults of every kind apply to OOB datagrams
// as to any other. Stratum "nofec" checks the refusal half.

type oobSent struct {
	tag    uint64
	size   int
	to     string // receiving endpoint
	copies int    // copies the network decided to deliver
	seen   int    // handler invocations
}

type oobWorld struct {
	mu  sync.Mutex // handlers run on library goroutines
	got []oobGot
}

type oobGot struct {
	ep   string
	data []byte
}

func oobPayload(tag uint64, size int) []byte {
	b := make([]byte, size)
	if size >= 8 {
		flowFill(tag*0x9E3779B97F4A7C15+7, 0, b)
		binary.LittleEndian.PutUint64(b, tag)
	} else {
		for i := range b {
			b[i] = byte(0x70 + size)
		}
	}
	return b
}

func scenOOB(r *Run) {
	s := r.S
	t := s.Tape
	const os = "oob"
	o := DrawXferOpt(t, r.Spec.Tier)
	nofec := r.Spec.Stratum == "nofec"
	if nofec {
		o.World.FecD, o.World.FecP = 0, 0
	} else if o.World.FecD == 0 {
		c := Pick(t, "cfg", fecChoices[1:])
		o.World.FecD, o.World.FecP = c[0], c[1]
		o.growTinyMTU(8) // the MTU classes were drawn for the overhead without FEC
	}
	o.CfgA.RateLimit, o.CfgB.RateLimit = 0, 0
	s.Alias = map[string]string{"C01": "C19", "C09": "C19"}
	x := NewXfer(r, o)
	w := x.W
	ow := &oobWorld{}
	sent := map[uint64]*oobSent{}
	shortSent := map[string]map[int]int{} // receiver -> length -> copies delivered
	var nextTag uint64
	handlerOn := map[string]bool{}
	register := func(ep *Endpoint) {
		if ep == nil {
			return
		}
		mode := t.Choose(os, 3) // 0 handler, 1 none, 2 handler registered then replaced by nil
		name := ep.Name
		cb := func(b []byte) {
			ow.mu.Lock()
			ow.got = append(ow.got, oobGot{name, append([]byte(nil), b...)})
			ow.mu.Unlock()
		}
		var err error
		switch mode {
		case 0:
			err = ep.Sess.SetOOBHandler(cb)
			handlerOn[name] = true
		case 2:
			err = ep.Sess.SetOOBHandler(cb)
			if err == nil {
				err = ep.Sess.SetOOBHandler(nil)
			}
		}
		if nofec {
			if mode != 1 && err == nil {
				s.Fail("C19", "refusal", "handler-accepted-without-fec", "%s: SetOOBHandler succeeded on a session without FEC", name)
			}
			if ep.Sess.GetOOBMaxSize() != 0 {
				s.Fail("C19", "refusal", "maxsize-without-fec", "%s: GetOOBMaxSize()=%d on a session without FEC", name, ep.Sess.GetOOBMaxSize())
			}
		} else if err != nil {
			s.Fail("C19", "handler", "handler-refused", "%s: SetOOBHandler failed with FEC on: %v", name, err)
		}
		s.L.Logf("oob handler on %s: mode %d", name, mode)
	}
	register(x.A)
	if x.B != nil {
		register(x.B)
	} else {
		x.OnAccept = func(b *Endpoint) { register(b) }
	}
	// count the copies the network delivers of every OOB datagram
	baseFate := s.Fate
	s.Fate = func(p *OutPkt) []Delivery {
		ds := baseFate(p)
		if p.Frame != nil && p.Frame.OOB {
			pl := p.Frame.OOBPayload
			// the only two endpoints are "A" (dialled) and "B"; before Accept returns
			// the harness does not know B's endpoint object yet, but its name
			to := "A"
			if p.Src == x.A.Conn {
				to = "B"
			}
			if len(pl) >= 8 {
				if rec := sent[binary.LittleEndian.Uint64(pl)]; rec != nil {
					rec.copies += len(ds)
				}
			} else {
				if shortSent[to] == nil {
					shortSent[to] = map[int]int{}
				}
				shortSent[to][len(pl)] += len(ds)
			}
			if len(ds) == 0 {
				s.Stats.Fault("oob-datagram-lost")
			}
			if len(ds) > 1 {
				s.Stats.Fault("oob-datagram-duplicated")
			}
		}
		return ds
	}
	// OOB sender actors
	nSenders := 1 + t.Choose(os, 2)
	nCalls := 5 + t.Skewed(os, 0, 200)
	if nofec {
		nCalls = 3 + t.Choose(os, 6)
	}
	done := 0
	issued := 0
	for i := 0; i < nSenders; i++ {
		side := i
		if nSenders == 1 {
			side = t.Choose(os, 2)
		}
		actor := s.NewActor(fmt.Sprintf("oob%d", i))
		var next func()
		calls := nCalls / nSenders
		next = func() {
			if calls <= 0 {
				done++
				return
			}
			calls--
			gap := time.Duration(t.Skewed(os, 0, 200000)) * time.Microsecond
			s.After(gap, "oob:"+actor.Name, func() {
				ep := x.A
				if side == 1 {
					ep = x.B
				}
				if ep == nil || ep.CloseInvoked || actor.Busy() {
					next()
					return
				}
				max := ep.Sess.GetOOBMaxSize()
				var size int
				switch t.Choose(os, 6) {
				case 0:
					size = t.Choose(os, 9) // 0..8
				case 1:
					size = max
				case 2:
					size = max + 1
				case 3:
					size = max - t.Choose(os, 4)
				default:
					size = t.Choose(os, max+1)
				}
				if size < 0 {
					size = 0
				}
				nextTag++
				tag := nextTag
				data := oobPayload(tag, size)
				peer := "A"
				if ep == x.A {
					peer = "B"
				}
				if size >= 8 {
					sent[tag] = &oobSent{tag: tag, size: size, to: peer}
				}
				wireBefore := ep.Out.wire.OOBSeen
				sess := ep.Sess
				issued++
				s.L.Logf("call %s SendOOB(%d bytes) max=%d", ep.Name, size, max)
				actor.Do("SendOOB", func() any { return errBox{sess.SendOOB(data)} }, func(res any) {
					if pr, ok := res.(PanicResult); ok {
						s.Fail("C05", "survive", "panic-in-sendoob", "SendOOB panicked: %s at %s", pr.Value, pr.Stack)
						return
					}
					err := res.(errBox).err
					s.L.Logf("ret  %s SendOOB -> %v", ep.Name, err)
					switch {
					case nofec:
						s.Stats.Probe("oob-refused-without-fec")
						if err == nil {
							s.Fail("C19", "refusal", "accepted-without-fec", "%s: SendOOB succeeded on a session without FEC", ep.Name)
						}
					case size > max:
						s.Stats.Probe("oob-oversize-refused")
						if err == nil {
							s.Fail("C19", "refusal", "oversize-accepted", "%s: SendOOB accepted %d bytes, GetOOBMaxSize() is %d", ep.Name, size, max)
						}
					default:
						if err != nil && !ep.CloseInvoked {
							s.Fail("C19", "send", "refused-within-limit", "%s: SendOOB refused %d bytes (limit %d): %v", ep.Name, size, max, err)
						}
						s.Stats.Probe("oob-sent")
						if size == max {
							s.Stats.Probe("oob-sent-at-max")
						}
						if size == 0 {
							s.Stats.Probe("oob-sent-empty")
						}
					}
					if err != nil {
						delete(sent, tag)
						// a refused call emits nothing: checked at the end against the wire count
						_ = wireBefore
					}
					next()
				})
			})
		}
		next()
	}
	// the handler oracle, evaluated at every quiescence on what arrived since
	checked := 0
	shortSeen := map[string]map[int]int{}
	s.Invariants = append(s.Invariants, func() {
		ow.mu.Lock()
		got := ow.got[checked:]
		checked = len(ow.got)
		ow.mu.Unlock()
		for _, g := range got {
			s.Stats.Probe("oob-handler-invoked")
			if len(g.data) < 8 {
				if string(g.data) != string(oobPayload(0, len(g.data))) {
					s.Fail("C19", "intact", "short-payload-altered", "%s: handler received %d bytes %x that no SendOOB call produced", g.ep, len(g.data), g.data)
				}
				if shortSeen[g.ep] == nil {
					shortSeen[g.ep] = map[int]int{}
				}
				shortSeen[g.ep][len(g.data)]++
				if shortSeen[g.ep][len(g.data)] > shortSent[g.ep][len(g.data)] {
					s.Fail("C19", "intact", "short-payload-not-sent", "%s: handler received a %d-byte payload %d times, the network delivered %d such datagrams to it", g.ep, len(g.data), shortSeen[g.ep][len(g.data)], shortSent[g.ep][len(g.data)])
				}
				continue
			}
			tag := binary.LittleEndian.Uint64(g.data)
			rec := sent[tag]
			if rec == nil {
				s.Fail("C19", "intact", "unknown-payload", "%s: handler received %d bytes (tag %d) that no SendOOB call produced", g.ep, len(g.data), tag)
				continue
			}
			if rec.to != g.ep {
				s.Fail("C19", "isolation", "delivered-to-other-session", "payload %d was sent to %s, the handler of %s received it", tag, rec.to, g.ep)
				continue
			}
			if len(g.data) != rec.size || string(g.data) != string(oobPayload(tag, rec.size)) {
				s.Fail("C19", "intact", "payload-altered", "%s: payload %d: %d bytes received, %d sent, or content differs", g.ep, tag, len(g.data), rec.size)
				continue
			}
			rec.seen++
			if rec.seen > rec.copies {
				s.Fail("C19", "intact", "delivered-more-often-than-network", "%s: payload %d reached the handler %d times, the network delivered %d copies", g.ep, tag, rec.seen, rec.copies)
			}
			if !handlerOn[g.ep] {
				s.Fail("C19", "handler", "unregistered-handler-invoked", "%s: a handler that was replaced by nil was invoked", g.ep)
			}
		}
	})
	s.Run(func() bool { return x.Done() && done >= nSenders })
	// refusal half: nothing on the wire from refused calls
	if s.Viol == nil {
		for _, ep := range w.Eps {
			okCalls := s.Stats.Probes["oob-sent"]
			if ep.Out != nil && ep.Out.wire != nil && ep.Out.wire.OOBSeen > okCalls {
				s.Fail("C19", "refusal", "refused-call-emitted", "%s: %d OOB datagrams on the wire, only %d calls were accepted", ep.Name, ep.Out.wire.OOBSeen, okCalls)
			}
		}
	}
	_ = issued
	x.Finish()
}

type errBox struct{ err error }

func init() {
	Register("oob", false, scenOOB)
}
