package sim

import (
	"fmt"
	"sync"
	"unsafe"
)

// PoolSan is the buffer-pool sanitizer (O-pool). It replaces the library's
// sync.Pool through hook H4: every Get hands out a fresh buffer and records it
// as owned; every Put must name an owned buffer (otherwise it is a double
// recycle), poisons it and keeps it in a FIFO quarantine; when a buffer leaves
// quarantine, and for everything still quarantined at the end of the run, the
// poison must be intact (otherwise something wrote to it after recycling it).
type PoolSan struct {
	mu         sync.Mutex
	owned      map[uintptr][]byte
	quarantine [][]byte
	QLen       int
	Gets, Puts int
	viol       *Violation
}

const poisonByte = 0xDB

func NewPoolSan() *PoolSan { return &PoolSan{owned: map[uintptr][]byte{}, QLen: 256} }

func bufKey(b []byte) uintptr { return uintptr(unsafe.Pointer(unsafe.SliceData(b))) }

func (ps *PoolSan) Get() []byte {
	b := make([]byte, 1500)
	// A recognisable "uninitialised" pattern: bytes of a fresh buffer that reach
	// the wire or a reader without having been written are a defect as well.
	for i := range b {
		b[i] = 0xA5
	}
	ps.mu.Lock()
	ps.owned[bufKey(b)] = b
	ps.Gets++
	ps.mu.Unlock()
	return b
}

func (ps *PoolSan) fail(class, format string, args ...any) {
	if ps.viol == nil {
		ps.viol = &Violation{Prop: "C15", Oracle: "pool", Detail: fmt.Sprintf(format, args...) + " at " + shortStack(), Sig: "C15/pool/" + class}
	}
}

func checkPoison(b []byte) int {
	for i, c := range b {
		if c != poisonByte {
			return i
		}
	}
	return -1
}

func (ps *PoolSan) Put(buf []byte) bool {
	b := buf[:cap(buf)]
	k := bufKey(b)
	ps.mu.Lock()
	defer ps.mu.Unlock()
	ps.Puts++
	if _, ok := ps.owned[k]; !ok {
		ps.fail("double-recycle", "buffer %#x recycled while not owned (recycled twice, or never acquired)", k)
		return true
	}
	delete(ps.owned, k)
	for i := range b {
		b[i] = poisonByte
	}
	ps.quarantine = append(ps.quarantine, b)
	if len(ps.quarantine) > ps.QLen {
		old := ps.quarantine[0]
		ps.quarantine[0] = nil
		ps.quarantine = ps.quarantine[1:]
		if i := checkPoison(old); i >= 0 {
			ps.fail("write-after-recycle", "recycled buffer %#x was written at offset %d (value %#x)", bufKey(old), i, old[i])
		}
	}
	return true
}

// Check verifies everything still quarantined and returns the first violation.
func (ps *PoolSan) Check(final bool) *Violation {
	ps.mu.Lock()
	defer ps.mu.Unlock()
	if final {
		for _, b := range ps.quarantine {
			if i := checkPoison(b); i >= 0 {
				ps.fail("write-after-recycle", "recycled buffer %#x was written at offset %d (value %#x)", bufKey(b), i, b[i])
				break
			}
		}
	}
	return ps.viol
}

// Outstanding is the number of buffers acquired and not recycled.
func (ps *PoolSan) Outstanding() int {
	ps.mu.Lock()
	defer ps.mu.Unlock()
	return len(ps.owned)
}

// poisonRun reports the longest run of poison bytes in b (to attribute a
// content mismatch to a read-after-recycle).
func poisonRun(b []byte) int {
	best, cur := 0, 0
	for _, c := range b {
		if c == poisonByte {
			cur++
			if cur > best {
				best = cur
			}
		} else {
			cur = 0
		}
	}
	return best
}
