package sim

import (
	"sort"
)

// Tape is the only source of decisions in a run. Every decision is drawn from a
// named stream; each stream has its own SplitMix64 generator derived from
// (run seed, stream name), so that deleting or zeroing choices of one stream
// never shifts the meaning of another stream's choices. In generate mode the
// drawn values are recorded; in replay mode they are read back and, past the
// end of a stream, default to 0. By construction 0 is always the simplest
// choice (no fault, minimum delay, smallest size, stop), so every tape -
// including a truncated or edited one - describes a valid run.
type Tape struct {
	Seed    uint64
	Replay  bool
	streams map[string]*tstream
	Draws   int
}

type tstream struct {
	vals []uint32
	pos  int
	rng  uint64
}

func NewTape(seed uint64) *Tape {
	return &Tape{Seed: seed, streams: map[string]*tstream{}}
}

// NewReplayTape builds a tape that replays recorded streams.
func NewReplayTape(seed uint64, rec map[string][]uint32) *Tape {
	t := &Tape{Seed: seed, Replay: true, streams: map[string]*tstream{}}
	for k, v := range rec {
		t.streams[k] = &tstream{vals: append([]uint32(nil), v...)}
	}
	return t
}

func splitmix(x *uint64) uint64 {
	*x += 0x9E3779B97F4A7C15
	z := *x
	z = (z ^ (z >> 30)) * 0xBF58476D1CE4E5B9
	z = (z ^ (z >> 27)) * 0x94D049BB133111EB
	return z ^ (z >> 31)
}

func hashString(s string) uint64 {
	h := uint64(14695981039346656037)
	for i := 0; i < len(s); i++ {
		h ^= uint64(s[i])
		h *= 1099511628211
	}
	return h
}

func (t *Tape) stream(name string) *tstream {
	st, ok := t.streams[name]
	if !ok {
		x := t.Seed ^ hashString(name)*0x9E3779B97F4A7C15
		splitmix(&x)
		st = &tstream{rng: x}
		t.streams[name] = st
	}
	return st
}

// Choose returns a value in [0,n). n<=1 returns 0 without consuming the tape.
func (t *Tape) Choose(stream string, n int) int {
	if n <= 1 {
		return 0
	}
	t.Draws++
	st := t.stream(stream)
	if t.Replay {
		if st.pos >= len(st.vals) {
			st.pos++
			return 0
		}
		v := st.vals[st.pos]
		st.pos++
		return int(v % uint32(n))
	}
	v := uint32(splitmix(&st.rng) % uint64(n))
	st.vals = append(st.vals, v)
	st.pos++
	return int(v)
}

// Chance returns true with probability perMille/1000. The recorded value is the
// decision itself (0 = no), so zeroing a tape entry removes the fault.
func (t *Tape) Chance(stream string, perMille int) bool {
	if perMille <= 0 {
		return false
	}
	t.Draws++
	st := t.stream(stream)
	if t.Replay {
		if st.pos >= len(st.vals) {
			st.pos++
			return false
		}
		v := st.vals[st.pos]
		st.pos++
		return v != 0
	}
	hit := int(splitmix(&st.rng)%1000) < perMille
	v := uint32(0)
	if hit {
		v = 1
	}
	st.vals = append(st.vals, v)
	st.pos++
	return hit
}

// Range returns a value in [lo,hi] (inclusive); lo is the simplest choice.
func (t *Tape) Range(stream string, lo, hi int) int {
	if hi <= lo {
		return lo
	}
	return lo + t.Choose(stream, hi-lo+1)
}

// Skewed returns a value in [lo,hi] biased towards lo (roughly log-uniform).
func (t *Tape) Skewed(stream string, lo, hi int) int {
	if hi <= lo {
		return lo
	}
	span := hi - lo + 1
	bits := 0
	for (1 << bits) < span {
		bits++
	}
	b := t.Choose(stream, bits+1)
	lim := 1 << b
	if lim > span {
		lim = span
	}
	return lo + t.Choose(stream, lim)
}

// Pick chooses one element of a list; element 0 is the simplest.
func Pick[T any](t *Tape, stream string, xs []T) T {
	return xs[t.Choose(stream, len(xs))]
}

// Record returns the recorded streams (for the replay file).
func (t *Tape) Record() map[string][]uint32 {
	out := map[string][]uint32{}
	for k, st := range t.streams {
		n := len(st.vals)
		if t.Replay && st.pos < n {
			n = st.pos
		}
		// trailing zeros carry no information
		for n > 0 && st.vals[n-1] == 0 {
			n--
		}
		if n > 0 {
			out[k] = append([]uint32(nil), st.vals[:n]...)
		}
	}
	return out
}

// StreamNames lists streams in sorted order.
func StreamNames(rec map[string][]uint32) []string {
	names := make([]string, 0, len(rec))
	for k := range rec {
		names = append(names, k)
	}
	sort.Strings(names)
	return names
}
