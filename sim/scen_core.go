package sim

import (
	"fmt"
	"time"

	kcp "github.com/xtaci/kcp-go/v5"
)

// Mode K: raw KCP cores wired through the simulated network on a single
// goroutine. The bubble is used only for its fake clock.

// CoreCfg configures one raw core.
type CoreCfg struct {
	Stream                        bool
	SndWnd, RcvWnd                int // 0 = default 32
	MTU                           int // 0 = default 1400
	SetNoDelay                    bool
	NoDelay, Interval, Resend, NC int
	Driver                        int // 0 session-style flush, 1 public Update/Check loop
	WriteDelay                    bool
	AckNoDelay                    bool
	ISNSnd, ISNRcv                uint32
}

func (c CoreCfg) String() string {
	return fmt.Sprintf("stream=%v wnd=%d/%d mtu=%d nodelay=%v(%d,%d,%d,%d) driver=%d wdelay=%v acknodelay=%v isn=%d/%d",
		c.Stream, c.SndWnd, c.RcvWnd, c.MTU, c.SetNoDelay, c.NoDelay, c.Interval, c.Resend, c.NC, c.Driver, c.WriteDelay, c.AckNoDelay, c.ISNSnd, c.ISNRcv)
}

func (c CoreCfg) sndWnd() int {
	if c.SndWnd > 0 {
		return c.SndWnd
	}
	return 32
}
func (c CoreCfg) rcvWnd() int {
	if c.RcvWnd > 0 {
		return c.RcvWnd
	}
	return 32
}
func (c CoreCfg) mtu() int {
	if c.MTU > 0 {
		return c.MTU
	}
	return 1400
}
func (c CoreCfg) mss() int { return c.mtu() - 24 }
func (c CoreCfg) interval() int {
	if c.SetNoDelay {
		iv := c.Interval
		if iv > 5000 {
			iv = 5000
		}
		if iv < 10 {
			iv = 10
		}
		return iv
	}
	return 100
}
func (c CoreCfg) minRTO() uint32 {
	if c.SetNoDelay && c.NoDelay != 0 {
		return 30
	}
	return 100
}
func (c CoreCfg) cwndOn() bool { return !(c.SetNoDelay && c.NC != 0) }

// DrawCoreCfg draws a raw-core configuration (0 = defaults).
func DrawCoreCfg(t *Tape, stream string) CoreCfg {
	var c CoreCfg
	c.Stream = t.Chance(stream, 500)
	c.SndWnd = Pick(t, stream, []int{0, 1, 2, 3, 4, 8, 16, 64, 128, 256})
	c.RcvWnd = Pick(t, stream, []int{0, 1, 2, 3, 4, 8, 16, 64, 128, 256})
	switch t.Choose(stream, 5) {
	case 1:
		c.MTU = 25 + t.Choose(stream, 40)
	case 2:
		c.MTU = 100 + t.Choose(stream, 1400)
	case 3:
		c.MTU = 1500
	case 4:
		c.MTU = 576
	}
	if t.Chance(stream, 600) {
		c.SetNoDelay = true
		c.NoDelay = t.Choose(stream, 2)
		c.Interval = Pick(t, stream, []int{10, 20, 40, 100, 500})
		c.Resend = t.Choose(stream, 4)
		c.NC = t.Choose(stream, 2)
	}
	c.Driver = t.Choose(stream, 2)
	c.WriteDelay = t.Chance(stream, 300)
	c.AckNoDelay = t.Chance(stream, 300)
	return c
}

type coreMsg struct {
	off  int64
	size int
}

type emitRec struct {
	from *CoreEnd
	segs []Seg
	size int
}

// CoreEnd is one raw core with its application model.
type CoreEnd struct {
	W    *CoreWorld
	Name string
	K    *kcp.KCP
	Conn *SimConn
	Peer *CoreEnd
	Cfg  CoreCfg
	Key  uint64

	// application side
	sent       []coreMsg // messages accepted by Send, in order
	sentBytes  int64
	recvMsgs   int
	recvBytes  int64
	Target     int64 // bytes to send in total
	SendDone   bool
	ReaderOff  bool // reader does not read (stall)
	MaxMsg     int  // largest message in bytes
	sendStream string

	// wire view (from this end's own emissions)
	xmit      map[uint32]int
	lastNewAt time.Duration
	// what the network delivered to this end
	peerWnd        uint32 // wnd of the last segment of the last regular datagram delivered to this end
	lossBarrier    uint32
	lossBarrierSet bool
	lossReopened   bool
	cwndBefore     uint32 // congestion window at the start of the current step
	cwndSlack      uint32
	lostSeen       uint64

	tickGen int
	NoCheck bool
	Forged  bool // this end has received content-valid forgeries (stream oracle off)
}

// CoreWorld is a set of raw cores on one simulated network.
type CoreWorld struct {
	S            *Sim
	Net          *Net
	Links        *Links
	Pool         *PoolSan
	Ends         []*CoreEnd
	emitted      []emitRec
	CheckWindows bool
	CheckOnce    bool // C18 clean path: every sn exactly once
	active       *CoreEnd
	lastLost     uint64
	lastFast     uint64
	// ReportReopen: report (instead of counting) the recorded finding "window
	// re-opened by a fast retransmission after a timeout loss".
	ReportReopen bool
}

func NewCoreWorld(s *Sim, poolSan bool, clockOff time.Duration) *CoreWorld {
	w := &CoreWorld{S: s, Net: NewNet(s), CheckWindows: true}
	w.Links = NewLinks(s)
	s.Fate = w.Links.Fate
	s.OnEmit = w.onEmit
	kcp.VerifSetRefTime(time.Now().Add(-clockOff))
	kcp.DefaultSnmp.Reset()
	kcp.VerifYield = nil
	if poolSan {
		w.Pool = NewPoolSan()
		kcp.VerifPoolGet, kcp.VerifPoolPut = w.Pool.Get, w.Pool.Put
	} else {
		kcp.VerifPoolGet, kcp.VerifPoolPut = nil, nil
	}
	s.Invariants = append(s.Invariants, w.invariants)
	return w
}

// AddPair creates two cores talking to each other.
func (w *CoreWorld) AddPair(ca, cb CoreCfg, conv uint32) (a, b *CoreEnd) {
	mk := func(name string, h int, c CoreCfg) *CoreEnd {
		e := &CoreEnd{W: w, Name: name, Cfg: c, xmit: map[uint32]int{}, peerWnd: 32}
		e.Key = hashString("core/"+name) ^ w.S.Tape.Seed*0x2545F4914F6CDD1D
		e.Conn = w.Net.NewConn(MakeAddr(h, false))
		e.sendStream = "actor/send:" + name
		e.K = kcp.NewKCP(conv, e.output)
		if c.SndWnd > 0 || c.RcvWnd > 0 {
			e.K.WndSize(c.SndWnd, c.RcvWnd)
		}
		if c.MTU > 0 {
			if e.K.SetMtu(c.MTU) != 0 {
				panic("harness: core MTU refused")
			}
		}
		if c.SetNoDelay {
			e.K.NoDelay(c.NoDelay, c.Interval, c.Resend, c.NC)
		}
		e.K.VerifSetStream(c.Stream)
		if c.ISNSnd != 0 || c.ISNRcv != 0 {
			e.K.VerifSetSeq(c.ISNSnd, c.ISNRcv)
		}
		e.Conn.Sink = func(from string, data []byte) { e.input(data) }
		w.Ends = append(w.Ends, e)
		w.S.L.Logf("core %s cfg{%s}", name, c)
		return e
	}
	a, b = mk("a", 1+2*len(w.Ends), ca), mk("b", 2+2*len(w.Ends), cb)
	a.Peer, b.Peer = b, a
	return
}

func (e *CoreEnd) output(buf []byte, size int) {
	s := e.W.S
	if size <= 0 {
		s.Fail("C10", "core-mtu", "empty-output", "%s: output callback invoked with size %d", e.Name, size)
		return
	}
	if size > e.Cfg.mtu() {
		s.Fail("C10", "core-mtu", "output-exceeds-mtu", "%s: output callback invoked with size %d, core MTU is %d", e.Name, size, e.Cfg.mtu())
	}
	e.Conn.WriteTo(buf[:size], e.Peer.Conn.addr)
}

func (w *CoreWorld) onEmit(p *OutPkt) {
	s := w.S
	p.Src.Sent++
	var from *CoreEnd
	for _, e := range w.Ends {
		if e.Conn == p.Src {
			from = e
		}
	}
	segs, err := ParseSegs(p.Data)
	if err != nil {
		s.Fail("C09", "wire", "unparseable-core-output", "%s#%d: %v", from.Name, p.Idx, err)
	}
	w.emitted = append(w.emitted, emitRec{from: from, segs: segs, size: len(p.Data)})
	desc := ""
	for i, sg := range segs {
		if i > 10 {
			desc += " ..."
			break
		}
		switch sg.Cmd {
		case wCmdPush:
			desc += fmt.Sprintf(" P%d/%d", sg.Sn, sg.Len)
		case wCmdAck:
			desc += fmt.Sprintf(" A%d", sg.Sn)
		case wCmdWask:
			desc += " WASK"
			s.Stats.Probe("wask-emitted")
		case wCmdWins:
			desc += " WINS"
			s.Stats.Probe("wins-emitted")
		}
	}
	if len(segs) > 0 {
		desc += fmt.Sprintf(" wnd=%d una=%d", segs[len(segs)-1].Wnd, segs[len(segs)-1].Una)
	}
	s.L.Logf("emit %s#%d len=%d [%s]", from.Name, p.Idx, len(p.Data), desc)
}

// input delivers a datagram to the core and lets the reader drain it.
func (e *CoreEnd) begin(slack uint32) {
	e.W.active = e
	e.cwndBefore = e.K.VerifStateLite().Cwnd
	e.cwndSlack = slack
}

func (e *CoreEnd) input(data []byte) {
	s := e.W.S
	// the congestion window can grow (by at most 2 segments) while the datagram's
	// acknowledgements are processed, before the flush that admits new segments
	e.begin(2)
	// what the harness's decoder says the datagram advertises (independent of
	// the library): wnd of its last segment
	if segs, err := ParseSegs(data); err == nil && len(segs) > 0 && segs[0].Conv == e.K.VerifStateLite().Conv {
		e.peerWndPending(segs)
	}
	ret := e.K.Input(data, kcp.IKCP_PACKET_REGULAR, e.Cfg.AckNoDelay)
	if ret != 0 {
		s.Stats.Probe("core-input-rejected")
	}
	e.read()
}

func (e *CoreEnd) peerWndPending(segs []Seg) {
	e.peerWnd = uint32(segs[len(segs)-1].Wnd)
}

// read drains every complete message / all stream bytes (a reader that keeps up).
func (e *CoreEnd) read() {
	if e.ReaderOff {
		return
	}
	s := e.W.S
	p := e.Peer
	for {
		n := e.K.PeekSize()
		if n < 0 {
			return
		}
		if n == 0 {
			s.Fail("C01", "core-stream", "empty-message", "%s: PeekSize reports an empty message", e.Name)
			return
		}
		buf := make([]byte, n)
		got := e.K.Recv(buf)
		if got != n {
			s.Fail("C01", "core-stream", "recv-size", "%s: PeekSize=%d but Recv returned %d", e.Name, n, got)
			return
		}
		s.L.Logf("recv %s %d bytes", e.Name, got)
		if e.Forged || e.NoCheck {
			e.recvBytes += int64(got)
			continue
		}
		if e.recvBytes+int64(got) > p.sentBytes {
			s.Fail("C01", "core-stream", "recv-beyond-sent", "%s: received %d bytes in total, peer sent %d", e.Name, e.recvBytes+int64(got), p.sentBytes)
			return
		}
		if i := flowCheck(p.Key, e.recvBytes, buf); i >= 0 {
			s.Fail("C01", "core-stream", "prefix-mismatch", "%s: byte at offset %d differs from what the peer sent", e.Name, e.recvBytes+int64(i))
			return
		}
		if !p.Cfg.Stream {
			// message mode: boundaries preserved
			if e.recvMsgs >= len(p.sent) || p.sent[e.recvMsgs].off != e.recvBytes || p.sent[e.recvMsgs].size != got {
				exp := -1
				if e.recvMsgs < len(p.sent) {
					exp = p.sent[e.recvMsgs].size
				}
				s.Fail("C01", "core-stream", "message-boundary", "%s: message %d has %d bytes at offset %d, the peer's message %d had %d", e.Name, e.recvMsgs, got, e.recvBytes, e.recvMsgs, exp)
				return
			}
		}
		e.recvMsgs++
		e.recvBytes += int64(got)
	}
}

// Send offers one application message to the core.
func (e *CoreEnd) Send(size int) bool {
	s := e.W.S
	e.begin(0)
	data := make([]byte, size)
	flowFill(e.Key, e.sentBytes, data)
	ret := e.K.Send(data)
	s.L.Logf("send %s %d bytes -> %d", e.Name, size, ret)
	if ret < 0 {
		return false
	}
	e.sent = append(e.sent, coreMsg{e.sentBytes, size})
	e.sentBytes += int64(size)
	if !e.Cfg.WriteDelay && e.Cfg.Driver == 0 {
		e.K.VerifFlush()
	}
	return true
}

// StartTicks starts the periodic driver of the core.
func (e *CoreEnd) StartTicks() {
	s := e.W.S
	e.tickGen++
	gen := e.tickGen
	var tick func()
	tick = func() {
		if gen != e.tickGen {
			return
		}
		var d time.Duration
		e.begin(0)
		if e.Cfg.Driver == 0 {
			iv := e.K.VerifFlush()
			d = time.Duration(iv) * time.Millisecond
		} else {
			e.K.Update()
			next := e.K.Check()
			diff := int32(next - kcp.VerifCurrentMs())
			if diff < 1 {
				diff = 1
			}
			d = time.Duration(diff) * time.Millisecond
		}
		s.At(s.Now()+d, "tick:"+e.Name, tick)
	}
	s.At(s.Now(), "tick:"+e.Name, tick)
}

// StartSender schedules the application's sends.
func (e *CoreEnd) StartSender(kind int, pausePM, pauseMaxUs int) {
	s := e.W.S
	if e.Target <= 0 {
		e.SendDone = true
		return
	}
	var next func()
	next = func() {
		if e.SendDone {
			return
		}
		if e.K.WaitSnd() >= 2*e.Cfg.sndWnd() {
			s.After(time.Duration(e.Cfg.interval())*time.Millisecond, "send-retry:"+e.Name, next)
			return
		}
		mss := e.Cfg.mss()
		if !e.Cfg.Stream && e.Peer.Cfg.rcvWnd() >= 256 && e.MaxMsg == 0 && mss <= 1500 && s.Tape.Chance(e.sendStream+"/big", 150) {
			// A message of exactly 256 fragments (one more than the frg byte can
			// number): the core may refuse it - then it was never sent - or accept
			// it - then it must arrive like any other, with its boundaries. (A stream
			// of its own: older tapes keep their meaning.)
			big := 255*mss + 1 + s.Tape.Choose(e.sendStream+"/big", mss)
			if e.Send(big) {
				e.Target += int64(big) // on top of the drawn transfer
				s.Stats.Probe("message-of-256-fragments-accepted")
			} else {
				s.Stats.Probe("message-of-256-fragments-refused")
			}
		}
		size := drawSize(s.Tape, e.sendStream, kind, mss)
		// a message must fit the peer's receive window and the 255-fragment limit
		maxFrag := min(255, e.Peer.Cfg.rcvWnd())
		if e.Cfg.Stream {
			maxFrag = 255 // one Send call is limited to 255 segments in either mode
		}
		if size > maxFrag*mss {
			size = maxFrag * mss
		}
		if e.MaxMsg > 0 && size > e.MaxMsg {
			size = e.MaxMsg
		}
		if int64(size) > e.Target-e.sentBytes {
			size = int(e.Target - e.sentBytes)
		}
		if !e.Send(size) {
			s.Fail("C01", "core-stream", "send-refused", "%s: Send(%d bytes) refused although within the fragment limit", e.Name, size)
			return
		}
		if e.sentBytes >= e.Target {
			e.SendDone = true
			return
		}
		pause := time.Duration(0)
		if s.Tape.Chance(e.sendStream, pausePM) {
			pause = time.Duration(s.Tape.Range(e.sendStream, 1, pauseMaxUs)) * time.Microsecond
		}
		s.After(pause, "send:"+e.Name, next)
	}
	s.After(0, "send:"+e.Name, next)
}

// Done reports whether everything sent in both directions has been received
// and both send backlogs are empty.
func (w *CoreWorld) Done() bool {
	for _, e := range w.Ends {
		if !e.SendDone || e.recvBytes != e.Peer.sentBytes || e.K.WaitSnd() != 0 {
			return false
		}
	}
	return true
}

// invariants is evaluated after every harness event (i.e. after every API call
// and every processed datagram).
func (w *CoreWorld) invariants() {
	s := w.S
	snmp := kcp.DefaultSnmp.Copy()
	for _, e := range w.Ends {
		st := e.K.VerifStateLite()
		// C18: RTO bounds
		if st.RxRto < e.Cfg.minRTO() || st.RxRto > 60000 {
			s.Fail("C18", "rto-bound", "rto-out-of-bounds", "%s: rto=%d outside [%d,60000]", e.Name, st.RxRto, e.Cfg.minRTO())
		}
		if !w.CheckWindows {
			continue
		}
		// C04: occupancy
		if st.RcvQueue > e.Cfg.rcvWnd() {
			s.Fail("C04", "occupancy", "rcv-queue-exceeds-window", "%s: %d segments await the reader, receive window is %d", e.Name, st.RcvQueue, e.Cfg.rcvWnd())
		}
		if st.RcvBuf > e.Cfg.rcvWnd() {
			s.Fail("C04", "occupancy", "rcv-buf-exceeds-window", "%s: %d out-of-order segments held, receive window is %d", e.Name, st.RcvBuf, e.Cfg.rcvWnd())
		}
		out := int(int32(st.SndNxt - st.SndUna))
		if out > e.Cfg.sndWnd() {
			s.Fail("C04", "occupancy", "outstanding-exceeds-send-window", "%s: %d segments outstanding, send window is %d", e.Name, out, e.Cfg.sndWnd())
		}
		if st.RcvQueue >= e.Cfg.rcvWnd() {
			s.Stats.Probe("rcv-queue-full")
		}
	}
	// per-emission checks with the state at the end of the step
	for _, rec := range w.emitted {
		e := rec.from
		st := e.K.VerifStateLite()
		free := e.Cfg.rcvWnd() - st.RcvQueue
		if free < 0 {
			free = 0
		}
		newSn := 0
		for _, sg := range rec.segs {
			if w.CheckWindows && int(sg.Wnd) > free {
				s.Fail("C04", "truthful-window", "advertised-more-than-free", "%s: segment advertises wnd=%d, delivery queue has room for %d", e.Name, sg.Wnd, free)
			}
			if sg.Wnd == 0 {
				s.Stats.Probe("zero-window-advertised")
			}
			if sg.Cmd != wCmdPush {
				continue
			}
			e.xmit[sg.Sn]++
			if e.xmit[sg.Sn] == 1 {
				newSn++
			} else {
				s.Stats.Probe("retransmission-on-wire")
				if w.CheckOnce {
					s.Fail("C18", "clean-path", "retransmission", "%s: sn %d transmitted %d times on a clean path", e.Name, sg.Sn, e.xmit[sg.Sn])
				}
			}
		}
		if newSn > 0 && w.CheckWindows && !e.Forged {
			out := int(int32(st.SndNxt - st.SndUna))
			lim := min(e.Cfg.sndWnd(), int(e.peerWnd))
			if e.Cfg.cwndOn() {
				// The window that admitted the segments is the one at the start of the
				// step (plus growth while the datagram's acknowledgements were
				// processed); the same flush may shrink it afterwards (loss), so the
				// end-of-step value alone would be too strict.
				lim = min(lim, int(max(e.cwndBefore, st.Cwnd)+e.cwndSlack))
				if e.cwndBefore == 0 && lim < 1 {
					lim = 1 // a fresh core starts with cwnd 0 and sets it to 1 in its first flush
				}
			}
			// Outstanding segments after admitting new ones may equal the limit.
			// snd_una can only have grown since admission, so this end-of-step test
			// is never stricter than the admission-time test.
			if out > lim && out > 0 {
				s.Fail("C04", "admission", "new-segment-beyond-window", "%s: new sn put on the wire with %d outstanding; min(send window %d, peer's advertised window %d, cwnd %v) = %d", e.Name, out, e.Cfg.sndWnd(), e.peerWnd, cwndStr(e, st), lim)
			}
			if e.lossBarrierSet && e.Cfg.cwndOn() && int32(st.SndUna-e.lossBarrier) <= 0 {
				if !e.lossReopened {
					s.Fail("C04", "admission", "new-segment-after-timeout-loss", "%s: new sn admitted after a timeout loss while the oldest outstanding segment %d is still unacknowledged", e.Name, e.lossBarrier)
				} else if w.ReportReopen {
					s.Fail("C04", "admission", "new-segment-after-timeout-loss+fast-retransmit", "%s: new sn admitted after a timeout loss while the oldest outstanding segment %d is still unacknowledged (a fast/early retransmission counted after the timeout re-opened the congestion window)", e.Name, e.lossBarrier)
				} else {
					s.Stats.Probe("known-finding-met:window-reopened-by-fast-retransmit-after-timeout")
					e.lossBarrierSet = false
				}
			}
		}
	}
	w.emitted = w.emitted[:0]
	// timeout losses the library counted in this step belong to the core that
	// ran in it: with congestion control on, nothing new may be admitted until
	// the oldest outstanding segment is acknowledged
	for _, e := range w.Ends {
		st := e.K.VerifStateLite()
		if e.lossBarrierSet && int32(st.SndUna-e.lossBarrier) > 0 {
			e.lossBarrierSet = false
		}
	}
	if fr := snmp.FastRetransSegs + snmp.EarlyRetransSegs; fr > w.lastFast && w.active != nil {
		if w.active.lossBarrierSet {
			w.active.lossReopened = true
		}
	}
	w.lastFast = snmp.FastRetransSegs + snmp.EarlyRetransSegs
	if snmp.LostSegs > w.lastLost && w.active != nil {
		e := w.active
		st := e.K.VerifStateLite()
		if st.SndNxt != st.SndUna {
			e.lossBarrier, e.lossBarrierSet, e.lossReopened = st.SndUna, true, false
			s.Stats.Probe("timeout-loss-counted")
		}
	}
	w.lastLost = snmp.LostSegs
	w.active = nil
}

func cwndStr(e *CoreEnd, st kcp.VerifKCPState) string {
	if e.Cfg.cwndOn() {
		return fmt.Sprintf("max(%d at start of step, %d at end)+%d", e.cwndBefore, st.Cwnd, e.cwndSlack)
	}
	return "off"
}

// ---------------------------------------------------------------------------
// scenario "core": two raw cores under seeded faults
// ---------------------------------------------------------------------------

// CoreOpt parametrises a core-pair run.
type CoreOpt struct {
	CfgA, CfgB   CoreCfg
	BytesA       int64
	BytesB       int64
	KindA, KindB int
	PausePM      int
	PauseUs      int
	Link         LinkCfg
	HealAt       time.Duration
}

func (o CoreOpt) String() string {
	return fmt.Sprintf("a{%s} b{%s} bytes=%d/%d kinds=%d/%d pause=%d/%dus link{base=%dus jit=%dus loss=%d dup=%d reorder=%d/%dus ge=%d/%d/%d outages=%v fifo=%v} heal=%v",
		o.CfgA, o.CfgB, o.BytesA, o.BytesB, o.KindA, o.KindB, o.PausePM, o.PauseUs,
		o.Link.BaseUs, o.Link.JitterUs, o.Link.LossPM, o.Link.DupPM, o.Link.ReorderPM, o.Link.ReorderUs, o.Link.GEGoodBad, o.Link.GEBadGood, o.Link.GEBadLoss, o.Link.Outages, o.Link.FIFO, o.HealAt)
}

func drawLink(t *Tape, cs string) LinkCfg {
	var l LinkCfg
	l.BaseUs = 50 + t.Skewed(cs, 0, 150000)
	l.JitterUs = t.Skewed(cs, 0, 40000)
	if t.Chance(cs, 750) {
		l.LossPM = t.Skewed(cs, 0, 400)
	}
	if t.Chance(cs, 500) {
		l.DupPM = t.Skewed(cs, 0, 300)
	}
	if t.Chance(cs, 500) {
		l.ReorderPM = t.Skewed(cs, 0, 400)
		l.ReorderUs = 1 + t.Skewed(cs, 0, 400000)
	}
	if t.Chance(cs, 200) {
		l.GEGoodBad = 10 + t.Choose(cs, 100)
		l.GEBadGood = 50 + t.Choose(cs, 400)
		l.GEBadLoss = 300 + t.Choose(cs, 700)
	}
	return l
}

func DrawCoreOpt(t *Tape, tier string) CoreOpt {
	const cs = "cfg"
	var o CoreOpt
	o.CfgA, o.CfgB = DrawCoreCfg(t, cs), DrawCoreCfg(t, cs)
	maxSegs := 300
	if tier == "thorough" {
		maxSegs = 1500
	}
	draw := func(c CoreCfg) int64 {
		lim := c.mss() * maxSegs
		if lim > 1<<20 {
			lim = 1 << 20
		}
		return int64(t.Skewed(cs, 0, lim))
	}
	o.BytesA, o.BytesB = draw(o.CfgA), draw(o.CfgB)
	if o.BytesA == 0 && o.BytesB == 0 {
		o.BytesA = 1 + int64(t.Choose(cs, 3000))
	}
	o.KindA, o.KindB = t.Choose(cs, 5), t.Choose(cs, 5)
	if t.Chance(cs, 300) {
		o.PausePM = 50 + t.Choose(cs, 300)
		o.PauseUs = 1 + t.Skewed(cs, 0, 200000)
	}
	o.Link = drawLink(t, cs)
	return o
}

// coreBudget is the analytic over-approximation of the time a healed network
// needs to drain the backlog (DESIGN 8/C02): the longest window-probe back-off,
// the worst retransmission back-off any outstanding segment has reached, and a
// stop-and-wait allowance per remaining segment.
func coreBudget(w *CoreWorld, o *CoreOpt) time.Duration {
	maxXmit := uint32(0)
	segs := 0
	ivl := 0
	for _, e := range w.Ends {
		st := e.K.VerifState()
		if st.MaxXmit > maxXmit {
			maxXmit = st.MaxXmit
		}
		segs += st.SndQueue + st.SndBuf
		rem := e.Target - e.sentBytes
		if rem > 0 {
			segs += int(rem)/max(1, e.Cfg.mss()) + 1
		}
		if e.Cfg.interval() > ivl {
			ivl = e.Cfg.interval()
		}
	}
	rtt := 2 * time.Duration(o.Link.BaseUs+o.Link.JitterUs+o.Link.ReorderUs) * time.Microsecond
	per := rtt + 3*time.Duration(ivl)*time.Millisecond + 200*time.Millisecond
	return 120*time.Second + time.Duration(maxXmit+2)*60*time.Second + time.Duration(segs+4)*per*2
}

func runCorePair(r *Run, o CoreOpt, liveness bool) *CoreWorld {
	return runCorePairOpt(r, o, liveness, nil)
}

func runCorePairOpt(r *Run, o CoreOpt, liveness bool, tweak func(w *CoreWorld)) *CoreWorld {
	s := r.S
	s.MaxSteps = 3000000
	s.MaxVirtual = 20 * time.Minute
	w := NewCoreWorld(s, true, 0)
	w.Links.Default = o.Link
	w.Links.HealAt = o.HealAt
	if tweak != nil {
		tweak(w)
	}
	r.Res.Config = o.String()
	s.L.Logf("config %s", r.Res.Config)
	a, b := w.AddPair(o.CfgA, o.CfgB, 0x77)
	a.Target, b.Target = o.BytesA, o.BytesB
	a.StartTicks()
	b.StartTicks()
	a.StartSender(o.KindA, o.PausePM, o.PauseUs)
	b.StartSender(o.KindB, o.PausePM, o.PauseUs)
	if !liveness {
		s.Run(w.Done)
	} else {
		// run until healed (or done), then demand completion within the budget
		s.MaxVirtual = o.HealAt + 4*time.Hour
		s.Run(func() bool { return w.Done() || s.Now() >= o.HealAt })
		if s.Viol == nil && !w.Done() {
			// the property is about what has been written: the applications stop
			// writing when the network heals, the backlog must drain
			for _, e := range w.Ends {
				e.SendDone = true
				e.Target = e.sentBytes
			}
			budget := coreBudget(w, &o)
			deadline := s.Now() + budget
			s.L.Logf("healed; backlog must drain within %v", budget)
			s.At(deadline, "liveness-deadline", func() {})
			s.Run(func() bool { return w.Done() || s.Now() >= deadline })
			if s.Viol == nil && !w.Done() && s.CapHit == "" {
				detail := ""
				for _, e := range w.Ends {
					st := e.K.VerifState()
					detail += fmt.Sprintf(" %s{sent=%d peer-received=%d snd_queue=%d snd_buf=%d unacked=%d una=%d nxt=%d rcv_nxt=%d rcv_queue=%d rcv_buf=%d rmt_wnd=%d cwnd=%d rto=%d maxxmit=%d probe_wait=%d acklist=%d}",
						e.Name, e.sentBytes, e.Peer.recvBytes, st.SndQueue, st.SndBuf, st.SndBufUnacked, st.SndUna, st.SndNxt, st.RcvNxt, st.RcvQueue, st.RcvBuf, st.RmtWnd, st.Cwnd, st.RxRto, st.MaxXmit, st.ProbeWait, st.AckList)
				}
				s.Fail("C02", "liveness", "backlog-not-drained", "%v after the network healed the transfer is still incomplete:%s", budget, detail)
			}
		}
	}
	r.Res.VirtualMs = int64(s.Now() / time.Millisecond)
	r.Res.Completed = w.Done()
	for _, e := range w.Ends {
		if e.recvBytes > 0 {
			r.Res.Progress = true
		}
	}
	if w.Pool != nil {
		if pv := w.Pool.Check(true); pv != nil {
			s.Fail(pv.Prop, pv.Oracle, pv.Sig[len("C15/pool/"):], "%s", pv.Detail)
		}
	}
	return w
}

func scenCore(r *Run) {
	s := r.S
	s.PanicProp = "C05"
	o := DrawCoreOpt(s.Tape, r.Spec.Tier)
	switch r.Spec.Stratum {
	case "heal":
		// faults (and possibly a total outage) for a seeded period, then a fair network
		const cs = "cfg"
		o.HealAt = time.Duration(1+s.Tape.Skewed(cs, 0, 20000)) * time.Millisecond
		if s.Tape.Chance(cs, 500) {
			from := time.Duration(s.Tape.Skewed(cs, 0, 5000)) * time.Millisecond
			length := time.Duration(1+s.Tape.Skewed(cs, 0, 600000)) * time.Millisecond
			o.Link.Outages = append(o.Link.Outages, Window{from, from + length})
			if from+length > o.HealAt {
				o.HealAt = from + length
			}
		}
		runCorePair(r, o, true)
	case "clean":
		// C18 clean path: FIFO, constant delay, no loss/dup/reorder; the window
		// precondition holds; RTT plus the peer's acknowledgement delay stays
		// below the minimum RTO of the sender
		const cs = "cfg"
		fixWnd := func(rx, tx *CoreCfg) {
			need := min(tx.sndWnd(), 32)
			if rx.rcvWnd() < need {
				rx.RcvWnd = need
			}
		}
		fixWnd(&o.CfgA, &o.CfgB)
		fixWnd(&o.CfgB, &o.CfgA)
		ackDelay := func(peer *CoreCfg, sender *CoreCfg) int {
			if !peer.AckNoDelay && peer.interval() >= int(sender.minRTO())-4 {
				peer.AckNoDelay = true
			}
			if peer.AckNoDelay {
				return 0
			}
			return peer.interval()
		}
		dA := (int(o.CfgA.minRTO()) - 3 - ackDelay(&o.CfgB, &o.CfgA)) * 1000 / 2 // us, for a's data
		dB := (int(o.CfgB.minRTO()) - 3 - ackDelay(&o.CfgA, &o.CfgB)) * 1000 / 2
		dmax := min(dA, dB) - 1
		o.Link = LinkCfg{FIFO: true, BaseUs: 1 + s.Tape.Skewed(cs, 0, dmax-1)}
		o.PauseUs = min(o.PauseUs, 20000)
		w := runCorePairOpt(r, o, false, func(w *CoreWorld) { w.CheckOnce = true })
		if s.Viol == nil {
			sn := kcp.DefaultSnmp.Copy()
			if sn.RetransSegs+sn.LostSegs+sn.FastRetransSegs+sn.EarlyRetransSegs != 0 {
				s.Fail("C18", "clean-path", "retransmission-counted", "clean path, yet the library counted retransmissions: retrans=%d lost=%d fast=%d early=%d", sn.RetransSegs, sn.LostSegs, sn.FastRetransSegs, sn.EarlyRetransSegs)
			}
		}
		_ = w
	case "reopen":
		// provokes the recorded finding "a fast/early retransmission after a timeout
		// loss re-opens the congestion window" and reports it (other strata only
		// count it)
		for _, c := range []*CoreCfg{&o.CfgA, &o.CfgB} {
			c.SetNoDelay, c.NC = true, 0
			c.Resend = 1 + s.Tape.Choose("cfg", 3)
			c.Interval = Pick(s.Tape, "cfg", []int{10, 20, 40})
			if c.SndWnd > 0 && c.SndWnd < 8 {
				c.SndWnd = 16
			}
		}
		o.Link.LossPM = 150 + s.Tape.Choose("cfg", 250)
		o.BytesA += 20000
		runCorePairOpt(r, o, false, func(w *CoreWorld) { w.ReportReopen = true })
	default:
		runCorePair(r, o, false)
	}
}

func init() {
	Register("core", true, scenCore)
}

// ---------------------------------------------------------------------------
// scenario "core-enum": every assignment of {deliver, drop, duplicate,
// deliver-late} to the first K datagrams of a run, followed by a fair network
// (C02, enumerated part). One run = one configuration x all 4^K assignments.
// ---------------------------------------------------------------------------

func scenCoreEnum(r *Run) {
	s := r.S
	s.PanicProp = "C05"
	t := s.Tape
	const cs = "cfg"
	K := 4
	if r.Spec.Tier == "thorough" {
		K = 6
	}
	if r.Spec.Stratum == "k5" {
		K = 5
	}
	ca, cb := DrawCoreCfg(t, cs), DrawCoreCfg(t, cs)
	// a small workload, so that the first K datagrams are most of the exchange
	nA, nB := 1+t.Choose(cs, 4), t.Choose(cs, 3)
	var msgsA, msgsB []int
	for i := 0; i < nA; i++ {
		msgsA = append(msgsA, drawSize(t, cs, 1+t.Choose(cs, 3), ca.mss()))
	}
	for i := 0; i < nB; i++ {
		msgsB = append(msgsB, drawSize(t, cs, 1+t.Choose(cs, 3), cb.mss()))
	}
	clip := func(ms []int, c, peer CoreCfg) {
		for i := range ms {
			lim := min(255, peer.rcvWnd()) * c.mss()
			if c.Stream {
				lim = 255 * c.mss()
			}
			if ms[i] > lim {
				ms[i] = lim
			}
		}
	}
	clip(msgsA, ca, cb)
	clip(msgsB, cb, ca)
	baseUs := 50 + t.Skewed(cs, 0, 50000)
	lateUs := 100000 + t.Skewed(cs, 0, 2000000)
	gapUs := t.Skewed(cs, 0, 50000)
	r.Res.Config = fmt.Sprintf("K=%d a{%s} b{%s} msgsA=%v msgsB=%v base=%dus late=%dus gap=%dus", K, ca, cb, msgsA, msgsB, baseUs, lateUs, gapUs)
	s.L.Logf("config %s", r.Res.Config)
	total := 1
	for i := 0; i < K; i++ {
		total *= 4
	}
	s.MaxSteps = 1 << 30
	s.MaxVirtual = 1 << 62
	names := []string{"deliver", "drop", "dup", "late"}
	for code := 0; code < total && s.Viol == nil; code++ {
		fates := make([]int, K)
		c := code
		desc := ""
		for i := 0; i < K; i++ {
			fates[i] = c % 4
			c /= 4
			desc += names[fates[i]][:2] + " "
		}
		// fresh world for this case
		s.heap = s.heap[:0]
		s.Invariants = nil
		w := NewCoreWorld(s, true, 0)
		emitted := 0
		var healedAt time.Duration = -1
		w.Links.Filter = func(p *OutPkt) ([]Delivery, bool) {
			i := emitted
			emitted++
			base := time.Duration(baseUs) * time.Microsecond
			if i >= K {
				if healedAt < 0 {
					healedAt = s.Now()
				}
				return []Delivery{{Delay: base}}, true
			}
			switch fates[i] {
			case 1:
				s.Stats.Fault("drop")
				return nil, true
			case 2:
				s.Stats.Fault("duplicate")
				return []Delivery{{Delay: base}, {Delay: base + time.Duration(lateUs)*time.Microsecond}}, true
			case 3:
				s.Stats.Fault("deliver-late")
				return []Delivery{{Delay: base + time.Duration(lateUs)*time.Microsecond}}, true
			}
			return []Delivery{{Delay: base}}, true
		}
		a, b := w.AddPair(ca, cb, 0x99)
		s.L.Logf("case %d fates [%s]", code, desc)
		a.StartTicks()
		b.StartTicks()
		sendAll := func(e *CoreEnd, ms []int) {
			at := s.Now()
			for _, m := range ms {
				m := m
				s.At(at, "send:"+e.Name, func() {
					if !e.Send(m) {
						s.Fail("C01", "core-stream", "send-refused", "%s: Send(%d) refused", e.Name, m)
					}
				})
				at += time.Duration(gapUs) * time.Microsecond
			}
			e.Target = 0
			s.At(at, "senddone:"+e.Name, func() { e.SendDone = true })
		}
		sendAll(a, msgsA)
		sendAll(b, msgsB)
		start := s.Now()
		// Everything after the K-th datagram travels on a fair network. The budget
		// is counted from the start of the case and covers the late deliveries.
		o := CoreOpt{Link: LinkCfg{BaseUs: baseUs}}
		var deadline time.Duration
		s.Run(func() bool {
			if deadline == 0 && a.SendDone && b.SendDone {
				deadline = s.Now() + coreBudget(w, &o) + time.Duration(lateUs)*time.Microsecond*2
				s.At(deadline, "liveness-deadline", func() {})
			}
			return w.Done() || (deadline > 0 && s.Now() >= deadline)
		})
		if s.Viol == nil && !w.Done() {
			detail := ""
			for _, e := range w.Ends {
				st := e.K.VerifState()
				detail += fmt.Sprintf(" %s{sent=%d peer-received=%d snd_queue=%d snd_buf=%d una=%d nxt=%d rcv_nxt=%d rcv_queue=%d rcv_buf=%d rmt_wnd=%d cwnd=%d rto=%d maxxmit=%d acklist=%d}",
					e.Name, e.sentBytes, e.Peer.recvBytes, st.SndQueue, st.SndBuf, st.SndUna, st.SndNxt, st.RcvNxt, st.RcvQueue, st.RcvBuf, st.RmtWnd, st.Cwnd, st.RxRto, st.MaxXmit, st.AckList)
			}
			s.Fail("C02", "liveness", "backlog-not-drained-enum", "case %d fates [%s]: %v after the start the exchange is still incomplete:%s", code, desc, s.Now()-start, detail)
		}
		if w.Pool != nil && s.Viol == nil {
			if pv := w.Pool.Check(true); pv != nil {
				s.Fail(pv.Prop, pv.Oracle, pv.Sig[len("C15/pool/"):], "%s", pv.Detail)
			}
		}
		r.Res.Cases++
	}
	r.Res.VirtualMs = int64(s.Now() / time.Millisecond)
	r.Res.Completed = s.Viol == nil
	r.Res.Progress = true
}

func init() {
	Register("core-enum", true, scenCoreEnum)
}
