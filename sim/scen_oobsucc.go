package sim

import (
	"encoding/binary"
	"sync"
	"time"

	kcp "github.com/xtaci/kcp-go/v5"
)

// Scenario "oob-successor" (C19: an out-of-band message is never delivered to
// another session): two sessions on caller-owned PacketConns (NewConn3) are used
// and closed; SUCCESSOR sessions with a new conversation id are then created on
// the very same conns, as an application does that keeps its socket. The closed
// sessions' read loops are still parked in ReadFrom on those conns. The first
// datagrams that arrive after the Close are out-of-band messages of the
// successors. They may reach the successor's handler or be lost - a closed
// session's handler must never see them.
func scenOOBSuccessor(r *Run) {
	s := r.S
	t := s.Tape
	const os = "oobs"
	o := DrawXferOpt(t, r.Spec.Tier)
	if o.World.FecD == 0 {
		c := Pick(t, "cfg", fecChoices[1:5])
		o.World.FecD, o.World.FecP = c[0], c[1]
	}
	o.World.Mismatch = false
	s.Alias = map[string]string{"C01": "C19", "C09": "C19"}
	s.MaxVirtual = 5 * time.Minute
	w := NewWorld(s, o.World)
	w.Links.Default = LinkCfg{BaseUs: 50 + t.Skewed(os, 0, 20000), JitterUs: t.Skewed(os, 0, 500), LossPM: t.Skewed(os, 0, 100)}
	a1, b1 := w.NewPair(SessCfg{}, SessCfg{}, false)

	var mu sync.Mutex // handlers run on library goroutines
	type hit struct {
		ep   string
		data []byte
		at   time.Duration
	}
	var hits []hit
	register := func(ep *Endpoint) {
		name := ep.Name
		if err := ep.Sess.SetOOBHandler(func(b []byte) {
			mu.Lock()
			hits = append(hits, hit{name, append([]byte(nil), b...), s.Now()})
			mu.Unlock()
		}); err != nil {
			s.Fail("C19", "handler", "handler-refused", "%s: SetOOBHandler failed with FEC on: %v", name, err)
		}
	}
	register(a1)
	register(b1)
	mode := IOMode{Kind: t.Choose(os, 5)}
	a1.Out.Target = int64(1 + t.Skewed(os, 0, 5000))
	b1.Out.Target = 0
	a1.StartWriter(mode)
	b1.StartReader(mode)
	b1.WriterDone, a1.ReaderDone = true, true
	phase := 1
	closedAt := map[string]time.Duration{}
	var a2, b2 *Endpoint
	sent := map[uint64]int{} // tag -> size
	var tag uint64
	sendOOB := func(from *Endpoint) {
		if from == nil || from.CloseInvoked {
			return
		}
		tag++
		max := from.Sess.GetOOBMaxSize()
		size := 8 + t.Choose(os, max2(1, max-8+1))
		if size > max {
			size = max
		}
		if size < 8 {
			return
		}
		sent[tag] = size
		err := from.Sess.SendOOB(oobPayload(tag, size))
		s.L.Logf("%s SendOOB(tag %d, %d bytes) -> %v", from.Name, tag, size, err)
		s.Stats.Probe("oob-sent")
	}
	// a few OOB messages on the first pair, too
	for i, n := 0, t.Choose(os, 3); i < n; i++ {
		s.At(time.Duration(t.Skewed(os, 0, 50000))*time.Microsecond+time.Duration(i), "oob", func() { sendOOB(b1) })
	}
	succeed := func() {
		phase = 2
		for _, ep := range []*Endpoint{a1, b1} {
			ep.CloseInvoked = true
			err := ep.Sess.Close()
			ep.Closed = true
			ep.ReaderDone, ep.WriterDone = true, true
			closedAt[ep.Name] = s.Now()
			s.L.Logf("Close(%s) -> %v; its PacketConn stays open (caller-owned)", ep.Name, err)
		}
		gap := time.Duration(t.Skewed(os, 0, 100000)) * time.Microsecond
		s.After(gap, "successors", func() {
			conv := uint32(0x3000 + t.Choose(os, 16))
			addrA, addrB := a1.Conn.addr, b1.Conn.addr
			sa, err1 := kcp.NewConn4(conv, addrB, w.block(), w.FecD, w.FecP, false, a1.Conn)
			sb, err2 := kcp.NewConn4(conv, addrA, w.block(), w.FecD2, w.FecP2, false, b1.Conn)
			if err1 != nil || err2 != nil {
				panic("harness: successor sessions refused")
			}
			a2 = w.addEndpoint("A2", sa, a1.Conn, a1.Remote, SessCfg{})
			b2 = w.addEndpoint("B2", sb, b1.Conn, b1.Remote, SessCfg{})
			a2.Peer, b2.Peer = b2, a2
			a2.Out, b2.Out = w.newFlow("A2>B2"), w.newFlow("B2>A2")
			a2.In, b2.In = b2.Out, a2.Out
			register(a2)
			register(b2)
			// the first thing on the wire after the Close: out-of-band messages
			n := 1 + t.Choose(os, 4)
			at := time.Duration(0)
			for i := 0; i < n; i++ {
				from := b2
				if t.Chance(os, 300) {
					from = a2
				}
				at += time.Duration(t.Skewed(os, 0, 20000)) * time.Microsecond
				s.After(at+time.Duration(i), "oob", func() { sendOOB(from) })
			}
			// ... then the reliable stream of the successors
			a2.Out.Target = int64(1 + t.Skewed(os, 0, 5000))
			b2.Out.Target = int64(t.Skewed(os, 0, 2000))
			s.After(at+time.Duration(1+t.Skewed(os, 0, 30000))*time.Microsecond, "traffic", func() {
				a2.StartWriter(mode)
				b2.StartWriter(mode)
				a2.StartReader(mode)
				b2.StartReader(mode)
				phase = 3
			})
		})
	}
	s.Invariants = append(s.Invariants, func() {
		mu.Lock()
		hs := hits
		hits = nil
		mu.Unlock()
		for _, h := range hs {
			if ct, closed := closedAt[h.ep]; closed && h.at > ct {
				s.Fail("C19", "oob", "delivered-to-a-closed-session", "the out-of-band handler of %s ran %v after that session had been closed (%d bytes); its successor on the same PacketConn is the only possible recipient", h.ep, h.at-ct, len(h.data))
				return
			}
			if len(h.data) >= 8 {
				tg := binary.LittleEndian.Uint64(h.data)
				size, ok := sent[tg]
				if !ok || size != len(h.data) || string(oobPayload(tg, size)) != string(h.data) {
					s.Fail("C19", "oob", "payload-altered", "%s: an out-of-band message arrived altered (tag %d, %d bytes)", h.ep, tg, len(h.data))
					return
				}
				s.Stats.Probe("oob-delivered")
			}
		}
	})
	s.Run(func() bool {
		if phase == 1 && (b1.ReaderDone || s.Now() > 3*time.Second) {
			succeed()
		}
		return phase == 3 && a2.WriterDone && b2.WriterDone && a2.ReaderDone && b2.ReaderDone
	})
	r.Res.Completed = s.Viol == nil && phase == 3
	r.Res.Progress = phase >= 2
	r.Res.VirtualMs = int64(s.Now() / time.Millisecond)
	if s.Viol != nil {
		w.QuickClose()
		return
	}
	x := &Xfer{R: r, S: s, W: w, Opt: o}
	x.Census()
}

func max2(a, b int) int {
	if a > b {
		return a
	}
	return b
}

func init() {
	Register("oob-successor", false, scenOOBSuccessor)
}
