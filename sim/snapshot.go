package sim

import (
	"fmt"
	"hash/fnv"
	"reflect"
	"sort"
	"unsafe"
)

// Deep state snapshot (C06): a reflection walk that records, per field path, a
// hash of every scalar, byte slice, string, slice element, map entry
// (order-insensitively) and pointed-to struct reachable from a root. Channels,
// funcs, interfaces holding the transport / cipher / codec, sync primitives,
// timers and unsafe pointers are skipped. It is generic: it does not know the
// library's field names, except for the short skip list below of fields that are
// other objects' roots or hold foreign machinery.

var snapSkipFields = map[string]bool{
	"conn": true, "block": true, "codec": true, "l": true, "platform": true, "rateLimiter": true,
	"callbackForOOB": true, "output": true, "log": true,
}

var snapSkipTypes = map[string]bool{
	"sync.Mutex": true, "sync.RWMutex": true, "sync.Once": true, "sync.WaitGroup": true, "sync.Pool": true,
	"time.Timer": true, "sync.noCopy": true,
}

type snapshot map[string]uint64

type snapWalker struct {
	out   snapshot
	seen  map[uintptr]bool
	nodes int
}

func hashOf(b []byte) uint64 {
	h := fnv.New64a()
	h.Write(b)
	return h.Sum64()
}

// Snap walks root (a pointer) and returns the path -> hash map.
func Snap(name string, root any) snapshot {
	w := &snapWalker{out: snapshot{}, seen: map[uintptr]bool{}}
	w.walk(name, reflect.ValueOf(root), 0)
	return w.out
}

func (w *snapWalker) leaf(path string, v uint64) { w.out[path] = v; w.nodes++ }

func (w *snapWalker) walk(path string, v reflect.Value, depth int) {
	if depth > 24 || !v.IsValid() {
		return
	}
	// strip the read-only flag of unexported fields when the value is addressable
	if v.CanAddr() && !v.CanInterface() {
		v = reflect.NewAt(v.Type(), unsafe.Pointer(v.UnsafeAddr())).Elem()
	}
	t := v.Type()
	if snapSkipTypes[t.String()] {
		return
	}
	switch v.Kind() {
	case reflect.Bool:
		if v.Bool() {
			w.leaf(path, 1)
		} else {
			w.leaf(path, 0)
		}
	case reflect.Int, reflect.Int8, reflect.Int16, reflect.Int32, reflect.Int64:
		w.leaf(path, uint64(v.Int()))
	case reflect.Uint, reflect.Uint8, reflect.Uint16, reflect.Uint32, reflect.Uint64, reflect.Uintptr:
		w.leaf(path, v.Uint())
	case reflect.Float32, reflect.Float64:
		w.leaf(path, uint64(v.Float()*1e6))
	case reflect.String:
		w.leaf(path, hashOf([]byte(v.String())))
	case reflect.Chan, reflect.Func, reflect.UnsafePointer:
		return
	case reflect.Interface:
		if v.IsNil() {
			w.leaf(path, 0)
			return
		}
		e := v.Elem()
		// values stored in atomic.Value and the like: time.Time, error, ...
		switch x := valueInterface(e).(type) {
		case fmt.Stringer:
			_ = x
		}
		if e.Kind() == reflect.Struct || e.Kind() == reflect.Ptr {
			// interface contents are not addressable: copy to make them so
			c := reflect.New(e.Type()).Elem()
			c.Set(e)
			if e.Type().String() == "time.Time" {
				w.leaf(path, hashOf([]byte(fmt.Sprint(valueInterface(e)))))
				return
			}
			if e.Kind() == reflect.Ptr {
				w.leaf(path+".(ptr)", uint64(e.Pointer()))
				return
			}
			w.walk(path+".("+e.Type().String()+")", c, depth+1)
			return
		}
		w.walk(path, e, depth+1)
	case reflect.Ptr:
		if v.IsNil() {
			w.leaf(path, 0)
			return
		}
		p := v.Pointer()
		if w.seen[p] {
			return
		}
		w.seen[p] = true
		w.walk(path, v.Elem(), depth+1)
	case reflect.Slice:
		if v.IsNil() {
			w.leaf(path+".len", 0)
			return
		}
		if t.Elem().Kind() == reflect.Uint8 {
			n := v.Len()
			b := unsafe.Slice((*byte)(unsafe.Pointer(v.Pointer())), n)
			w.leaf(path, hashOf(b)^uint64(n)<<48)
			return
		}
		w.leaf(path+".len", uint64(v.Len()))
		for i := 0; i < v.Len(); i++ {
			w.walk(fmt.Sprintf("%s[%d]", path, i), v.Index(i), depth+1)
		}
	case reflect.Array:
		if t.Elem().Kind() == reflect.Uint8 && v.CanAddr() {
			b := unsafe.Slice((*byte)(unsafe.Pointer(v.UnsafeAddr())), v.Len())
			w.leaf(path, hashOf(b))
			return
		}
		for i := 0; i < v.Len(); i++ {
			w.walk(fmt.Sprintf("%s[%d]", path, i), v.Index(i), depth+1)
		}
	case reflect.Map:
		w.leaf(path+".len", uint64(v.Len()))
		keys := v.MapKeys()
		ks := make([]string, len(keys))
		idx := map[string]reflect.Value{}
		for i, k := range keys {
			ks[i] = fmt.Sprint(valueInterface(k))
			idx[ks[i]] = k
		}
		sort.Strings(ks)
		for _, k := range ks {
			mv := v.MapIndex(idx[k])
			// map values are not addressable: copy
			c := reflect.New(mv.Type()).Elem()
			c.Set(mv)
			if mv.Kind() == reflect.Ptr && mv.Type().String() == "*kcp.UDPSession" {
				// the listener's table: membership is what matters here; the sessions
				// themselves are walked as roots of their own
				w.leaf(path+"["+k+"]", 1)
				continue
			}
			w.walk(path+"["+k+"]", c, depth+1)
		}
	case reflect.Struct:
		if t.String() == "atomic.Value" {
			// load through its own API
			if v.CanAddr() {
				m := v.Addr().MethodByName("Load")
				if m.IsValid() {
					res := m.Call(nil)[0]
					if res.IsNil() {
						w.leaf(path, 0)
					} else {
						w.leaf(path, hashOf([]byte(fmt.Sprintf("%T:%v", res.Interface(), res.Interface()))))
					}
					return
				}
			}
			return
		}
		for i := 0; i < v.NumField(); i++ {
			f := t.Field(i)
			if snapSkipFields[f.Name] {
				continue
			}
			w.walk(path+"."+f.Name, v.Field(i), depth+1)
		}
	}
}

func valueInterface(v reflect.Value) any {
	if v.CanInterface() {
		return v.Interface()
	}
	if v.CanAddr() {
		return reflect.NewAt(v.Type(), unsafe.Pointer(v.UnsafeAddr())).Elem().Interface()
	}
	// last resort: format by kind
	switch v.Kind() {
	case reflect.String:
		return v.String()
	case reflect.Int, reflect.Int8, reflect.Int16, reflect.Int32, reflect.Int64:
		return v.Int()
	case reflect.Uint, reflect.Uint8, reflect.Uint16, reflect.Uint32, reflect.Uint64:
		return v.Uint()
	}
	return fmt.Sprintf("<%s>", v.Type())
}

// Diff returns the first (sorted) differing path between two snapshots.
func (a snapshot) Diff(b snapshot) (path string, differs bool) {
	var paths []string
	for k, va := range a {
		if vb, ok := b[k]; !ok || va != vb {
			paths = append(paths, k)
		}
	}
	for k := range b {
		if _, ok := a[k]; !ok {
			paths = append(paths, k)
		}
	}
	if len(paths) == 0 {
		return "", false
	}
	sort.Strings(paths)
	return paths[0], true
}
