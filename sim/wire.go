package sim

import (
	"encoding/binary"
	"fmt"
)

// Independent decoder of kcp-go datagrams, written from README "Specification"
// and wireshark/kcp_dissector.lua. It shares no code with the library.

const (
	wCmdPush = 81
	wCmdAck  = 82
	wCmdWask = 83
	wCmdWins = 84

	wFecData   = 0xf1
	wFecParity = 0xf2
	wFecOOB    = 0xf3

	wKcpHeader = 24
	wFecHeader = 6
)

// Seg is one KCP segment as seen on the wire.
type Seg struct {
	Conv uint32
	Cmd  uint8
	Frg  uint8
	Wnd  uint16
	Ts   uint32
	Sn   uint32
	Una  uint32
	Len  uint32
	Data []byte
}

// Frame is one decoded datagram.
type Frame struct {
	RawLen  int
	Nonce   []byte
	Payload []byte // after the crypto header

	HasFEC  bool
	FecSeq  uint32
	FecType uint16
	FecSize uint16 // value of the size field (data/OOB only)
	FecBody []byte // data: size field + KCP bytes; parity: parity bytes (as carried)

	OOB        bool
	OOBConv    uint32
	OOBPayload []byte

	Segs []Seg
}

func (f *Frame) Kind() string {
	switch {
	case f.OOB:
		return "oob"
	case f.HasFEC && f.FecType == wFecParity:
		return "parity"
	}
	hasPush, hasAck, hasProbe := false, false, false
	for _, s := range f.Segs {
		switch s.Cmd {
		case wCmdPush:
			hasPush = true
		case wCmdAck:
			hasAck = true
		default:
			hasProbe = true
		}
	}
	switch {
	case hasPush:
		return "data"
	case hasProbe:
		return "probe"
	case hasAck:
		return "ack"
	}
	return "empty"
}

// ParseSegs parses a sequence of KCP segments that must fill b exactly.
func ParseSegs(b []byte) ([]Seg, error) {
	var segs []Seg
	for len(b) > 0 {
		if len(b) < wKcpHeader {
			return segs, fmt.Errorf("trailing %d bytes, less than a KCP header", len(b))
		}
		s := Seg{
			Conv: binary.LittleEndian.Uint32(b[0:]),
			Cmd:  b[4], Frg: b[5],
			Wnd: binary.LittleEndian.Uint16(b[6:]),
			Ts:  binary.LittleEndian.Uint32(b[8:]),
			Sn:  binary.LittleEndian.Uint32(b[12:]),
			Una: binary.LittleEndian.Uint32(b[16:]),
			Len: binary.LittleEndian.Uint32(b[20:]),
		}
		b = b[wKcpHeader:]
		if s.Cmd < wCmdPush || s.Cmd > wCmdWins {
			return segs, fmt.Errorf("cmd %d is not a KCP command", s.Cmd)
		}
		if uint64(s.Len) > uint64(len(b)) {
			return segs, fmt.Errorf("segment len %d exceeds remaining %d bytes", s.Len, len(b))
		}
		if s.Cmd != wCmdPush && s.Len != 0 {
			return segs, fmt.Errorf("cmd %d carries %d data bytes", s.Cmd, s.Len)
		}
		s.Data = b[:s.Len]
		b = b[s.Len:]
		segs = append(segs, s)
	}
	return segs, nil
}

// DecodeFrame parses a datagram emitted by a session configured with the given
// cipher and FEC setting (as chosen by the harness, not read from the library).
func DecodeFrame(rc *RefCipher, fec bool, raw []byte) (*Frame, error) {
	f := &Frame{RawLen: len(raw)}
	nonce, payload, ok, why := rc.Open(raw)
	if !ok {
		return nil, fmt.Errorf("integrity: %s", why)
	}
	f.Nonce, f.Payload = nonce, payload
	body := payload
	if fec {
		if len(body) < wFecHeader {
			return nil, fmt.Errorf("FEC header truncated: %d bytes", len(body))
		}
		f.HasFEC = true
		f.FecSeq = binary.LittleEndian.Uint32(body)
		f.FecType = binary.LittleEndian.Uint16(body[4:])
		f.FecBody = body[wFecHeader:]
		switch f.FecType {
		case wFecParity:
			return f, nil
		case wFecData, wFecOOB:
			if len(f.FecBody) < 2 {
				return nil, fmt.Errorf("FEC size field missing")
			}
			f.FecSize = binary.LittleEndian.Uint16(f.FecBody)
			if int(f.FecSize) != len(f.FecBody) {
				return nil, fmt.Errorf("FEC size field %d, payload+2 = %d", f.FecSize, len(f.FecBody))
			}
			body = f.FecBody[2:]
			if f.FecType == wFecOOB {
				if f.FecSeq != 0xffffffff {
					return nil, fmt.Errorf("OOB packet with seqid %d", f.FecSeq)
				}
				if len(body) < 4 {
					return nil, fmt.Errorf("OOB packet without conversation id")
				}
				f.OOB = true
				f.OOBConv = binary.LittleEndian.Uint32(body)
				f.OOBPayload = body[4:]
				return f, nil
			}
		default:
			return nil, fmt.Errorf("FEC type %#x", f.FecType)
		}
	}
	if len(body) == 0 {
		return nil, fmt.Errorf("no KCP segment in datagram")
	}
	segs, err := ParseSegs(body)
	f.Segs = segs
	return f, err
}

func seqLess(a, b uint32) bool { return int32(a-b) < 0 }
