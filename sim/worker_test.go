package sim

import (
	"bufio"
	"encoding/json"
	"fmt"
	"os"
	"runtime/pprof"
	"strconv"
	"strings"
	"testing"
	"time"
)

// TestWorker is the entry point of a worker process: it executes the runs of
// the job file named by VERIF_JOB, one synctest bubble per run, and appends one
// JSON line per run to the job's output file. BEGIN/END lines in the journal
// let the supervisor attribute a process crash (a panic in a library goroutine
// cannot be recovered) to the run that caused it.
func TestWorker(t *testing.T) {
	path := os.Getenv("VERIF_JOB")
	if path == "" {
		t.Skip("VERIF_JOB not set")
	}
	raw, err := os.ReadFile(path)
	if err != nil {
		fmt.Fprintln(os.Stderr, "worker: ", err)
		os.Exit(2)
	}
	var job Job
	if err := json.Unmarshal(raw, &job); err != nil {
		fmt.Fprintln(os.Stderr, "worker: ", err)
		os.Exit(2)
	}
	out, err := os.OpenFile(job.Out, os.O_CREATE|os.O_APPEND|os.O_WRONLY, 0o644)
	if err != nil {
		fmt.Fprintln(os.Stderr, "worker: ", err)
		os.Exit(2)
	}
	jr, err := os.OpenFile(job.Journal, os.O_CREATE|os.O_APPEND|os.O_WRONLY, 0o644)
	if err != nil {
		fmt.Fprintln(os.Stderr, "worker: ", err)
		os.Exit(2)
	}
	w := bufio.NewWriter(out)
	for i, spec := range job.Specs {
		fmt.Fprintf(jr, "BEGIN %d\n", i)
		JournalMark = func(tag string) {
			if tag == "" {
				tag = "-"
			}
			fmt.Fprintf(jr, "MARK %d %s\n", i, tag)
		}
		var wd *time.Timer
		if job.RunLimitS > 0 {
			// a real-time watchdog outside the bubble: a run that does not come back
			// (a goroutine of the library blocked on a mutex for good stops virtual
			// time and every synctest.Wait) ends the process with a goroutine dump
			wd = time.AfterFunc(time.Duration(job.RunLimitS)*time.Second, func() {
				fmt.Fprintf(jr, "HANG %d\n", i)
				fmt.Fprintf(os.Stderr, "HANG: run %d did not finish within %d s of real time; goroutines:\n", i, job.RunLimitS)
				pprof.Lookup("goroutine").WriteTo(os.Stderr, 2)
				os.Exit(3)
			})
		}
		res := RunOne(t, spec)
		if wd != nil {
			wd.Stop()
		}
		JournalMark = nil
		b, _ := json.Marshal(res)
		w.Write(b)
		w.WriteByte('\n')
		w.Flush()
		fmt.Fprintf(jr, "END %d\n", i)
		if res.Known == "leak" || res.Known == "bubble-deadlock" {
			// goroutines of a dead bubble are still around: do not reuse this process
			fmt.Fprintf(jr, "STOP %d\n", i)
			out.Close()
			jr.Close()
			os.Exit(0)
		}
	}
}

// TestDev runs seeds of one scenario in-process and prints a line per run:
// VERIF_DEV="prop:scenario[:stratum]" VERIF_SEEDS="start:count" [VERIF_LOG=1]
func TestDev(t *testing.T) {
	dev := os.Getenv("VERIF_DEV")
	if dev == "" {
		t.Skip("VERIF_DEV not set")
	}
	parts := strings.Split(dev, ":")
	start, count := uint64(1), 10
	if sd := os.Getenv("VERIF_SEEDS"); sd != "" {
		p := strings.Split(sd, ":")
		start, _ = strconv.ParseUint(p[0], 10, 64)
		if len(p) > 1 {
			count, _ = strconv.Atoi(p[1])
		}
	}
	tier := os.Getenv("VERIF_TIER")
	if tier == "" {
		tier = "quick"
	}
	for i := 0; i < count; i++ {
		spec := RunSpec{Prop: parts[0], Scenario: parts[1], Seed: start + uint64(i), Tier: tier, WantLog: os.Getenv("VERIF_LOG") != ""}
		if len(parts) > 2 {
			spec.Stratum = parts[2]
		}
		if rf := os.Getenv("VERIF_REPLAYFILE"); rf != "" {
			// debugging: run the tape of a replay file in-process (full log on demand)
			raw, err := os.ReadFile(rf)
			if err != nil {
				t.Fatal(err)
			}
			var rp struct {
				Tape     map[string][]uint32 `json:"tape"`
				Seed     uint64              `json:"run_seed"`
				Stratum  string              `json:"stratum"`
				Scenario string              `json:"scenario"`
				Prop     string              `json:"property"`
				Tier     string              `json:"tier"`
			}
			if err := json.Unmarshal(raw, &rp); err != nil {
				t.Fatal(err)
			}
			spec.Prop, spec.Scenario, spec.Stratum, spec.Seed, spec.Tier = rp.Prop, rp.Scenario, rp.Stratum, rp.Seed, rp.Tier
			spec.Replay, spec.IsReplay = rp.Tape, true
		}
		res := RunOne(t, spec)
		v := "ok"
		if res.Viol != nil {
			v = "VIOLATION " + res.Viol.String()
		}
		if res.Harness != "" {
			v = "HARNESS " + res.Harness
		}
		fmt.Printf("seed=%d %s steps=%d vms=%d wall=%dus cap=%q completed=%v hash=%s foreign=%v\n   cfg: %s\n", res.Seed, v, res.Steps, res.VirtualMs, res.WallUs, res.CapHit, res.Completed, res.LogHash, res.Foreign, res.Config)
		if os.Getenv("VERIF_LOG") != "" {
			for _, l := range res.Log {
				fmt.Println("   ", l)
			}
			fmt.Println("   faults:", res.Faults, "probes:", res.Probes)
		}
		if res.Known != "" {
			fmt.Println("   known:", res.Known, "(process not reusable; continuing anyway in dev mode)")
		}
	}
}
