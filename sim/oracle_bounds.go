package sim

// Always-on invariants evaluated at every quiescence of every session-level
// run (O-bounds): the RTO bound of C18 and the occupancy limits of C04.

func (ep *Endpoint) rcvWndCfg() int {
	w := 32
	if ep.Cfg.RcvWnd > 0 {
		w = ep.Cfg.RcvWnd
	}
	if ep.Accepted && w < 32 {
		// an accepted session lived with the default window until the
		// application could configure it
		w = 32
	}
	return w
}

func (ep *Endpoint) sndWndCfg() int {
	w := 32
	if ep.Cfg.SndWnd > 0 {
		w = ep.Cfg.SndWnd
	}
	if ep.Accepted && w < 32 {
		w = 32
	}
	return w
}

func (ep *Endpoint) minRTOCfg() uint32 {
	if ep.Cfg.SetNoDelay && ep.Cfg.NoDelay != 0 {
		return 30
	}
	return 100
}

// InstallBounds adds the always-on invariants to the simulator.
func (w *World) InstallBounds() {
	s := w.S
	s.Invariants = append(s.Invariants, func() {
		for _, ep := range w.Eps {
			if ep.Closed {
				continue
			}
			rto := ep.Sess.GetRTO()
			if rto < ep.minRTOCfg() || rto > 60000 {
				s.Fail("C18", "rto-bound", "rto-out-of-bounds", "%s: GetRTO()=%d outside [%d,60000]", ep.Name, rto, ep.minRTOCfg())
			}
			st := ep.StateLite()
			if st.RcvQueue > ep.rcvWndCfg() {
				s.Fail("C04", "occupancy", "rcv-queue-exceeds-window", "%s: %d segments await the reader, receive window is %d", ep.Name, st.RcvQueue, ep.rcvWndCfg())
			}
			if st.RcvBuf > ep.rcvWndCfg() {
				s.Fail("C04", "occupancy", "rcv-buf-exceeds-window", "%s: %d out-of-order segments held, receive window is %d", ep.Name, st.RcvBuf, ep.rcvWndCfg())
			}
			if out := int(int32(st.SndNxt - st.SndUna)); out > ep.sndWndCfg() {
				s.Fail("C04", "occupancy", "outstanding-exceeds-send-window", "%s: %d segments outstanding, send window is %d", ep.Name, out, ep.sndWndCfg())
			}
			if st.RcvQueue >= ep.rcvWndCfg() && ep.rcvWndCfg() > 0 {
				s.Stats.Probe("rcv-queue-full")
			}
		}
	})
}
