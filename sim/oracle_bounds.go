package sim

import (
	"sync/atomic"
	"time"

	kcp "github.com/xtaci/kcp-go/v5"
)

// Always-on invariants evaluated at every quiescence of every session-level
// run (O-bounds): the RTO bound of C18 and the occupancy limits of C04.

func (ep *Endpoint) rcvWndCfg() int {
	w := 32
	if ep.Cfg.RcvWnd > 0 {
		w = ep.Cfg.RcvWnd
	}
	if ep.Accepted && w < 32 {
		// an accepted session lived with the default window until the
		// application could configure it
		w = 32
	}
	return w
}

func (ep *Endpoint) sndWndCfg() int {
	w := 32
	if ep.Cfg.SndWnd > 0 {
		w = ep.Cfg.SndWnd
	}
	if ep.Accepted && w < 32 {
		w = 32
	}
	return w
}

func (ep *Endpoint) minRTOCfg() uint32 {
	if ep.Cfg.SetNoDelay && ep.Cfg.NoDelay != 0 {
		return 30
	}
	return 100
}

// silenceLimit: a session that holds unsent data and has nothing unacknowledged
// in flight, or whose peer's window stands at zero, transmits at least this
// often whatever happens - new data at its next flush, or a zero-window probe
// (interval at most 120 s).
const silenceLimit = 150 * time.Second

// InstallBounds adds the always-on invariants to the simulator.
func (w *World) InstallBounds() {
	s := w.S
	// O-silence (C02): a sender with a backlog never falls silent. Emissions are
	// counted where they are handed to the transport, whatever the network does
	// with them afterwards, so outages and loss do not matter here.
	lastEmit := map[*Endpoint]time.Duration{}
	prevEmit := s.OnEmit
	s.OnEmit = func(p *OutPkt) {
		if prevEmit != nil {
			prevEmit(p)
		}
		if ep := w.byFlow[p.Src.addrStr+">"+p.Dst]; ep != nil {
			lastEmit[ep] = s.Now()
		}
	}
	s.Invariants = append(s.Invariants, func() {
		if w.TearingDown || w.NoSilenceCheck {
			return
		}
		now := s.Now()
		for _, ep := range w.Eps {
			if ep.Closed || ep.CloseInvoked || ep.Conn.IsClosed() || atomic.LoadInt32(&ep.Conn.WriteErrs) > 0 {
				delete(lastEmit, ep)
				continue
			}
			st := ep.StateLite()
			if st.SndQueue+st.SndBuf == 0 {
				lastEmit[ep] = now // nothing it would have to send
				continue
			}
			last, ok := lastEmit[ep]
			if !ok {
				lastEmit[ep] = now
				continue
			}
			if now-last > silenceLimit {
				// A segment in flight backs its own timer off without a cap (only the
				// session's RTO estimate is capped at 60 s), so silence is inexcusable
				// only if nothing unacknowledged is in flight - then the next flush
				// must admit new data - or if the peer's window stands at zero - then
				// a probe is due at least every 120 s.
				if full := ep.State(); full.SndBufUnacked > 0 && full.RmtWnd != 0 {
					continue
				}
				s.Fail("C02", "liveness", "sender-silent-with-backlog", "%s holds %d queued and %d in-flight segments and has handed nothing to the transport for %v (una=%d nxt=%d rmt_wnd=%d cwnd=%d rto=%d probe_wait=%d)", ep.Name, st.SndQueue, st.SndBuf, now-last, st.SndUna, st.SndNxt, st.RmtWnd, st.Cwnd, st.RxRto, st.ProbeWait)
			}
		}
	})
	s.Invariants = append(s.Invariants, func() {
		w.noteWrongRatioRecovery()
		for _, ep := range w.Eps {
			if ep.Closed {
				continue
			}
			rto := ep.Sess.GetRTO()
			if rto < ep.minRTOCfg() || rto > 60000 {
				s.Fail("C18", "rto-bound", "rto-out-of-bounds", "%s: GetRTO()=%d outside [%d,60000]", ep.Name, rto, ep.minRTOCfg())
			}
			st := ep.StateLite()
			if st.RcvQueue > ep.rcvWndCfg() {
				s.Fail("C04", "occupancy", "rcv-queue-exceeds-window", "%s: %d segments await the reader, receive window is %d", ep.Name, st.RcvQueue, ep.rcvWndCfg())
			}
			if st.RcvBuf > ep.rcvWndCfg() {
				s.Fail("C04", "occupancy", "rcv-buf-exceeds-window", "%s: %d out-of-order segments held, receive window is %d", ep.Name, st.RcvBuf, ep.rcvWndCfg())
			}
			if out := int(int32(st.SndNxt - st.SndUna)); out > ep.sndWndCfg() {
				s.Fail("C04", "occupancy", "outstanding-exceeds-send-window", "%s: %d segments outstanding, send window is %d", ep.Name, out, ep.sndWndCfg())
			}
			if st.RcvQueue >= ep.rcvWndCfg() && ep.rcvWndCfg() > 0 {
				s.Stats.Probe("rcv-queue-full")
			}
		}
	})
}

// noteWrongRatioRecovery is the attribution for the recorded C16 finding: it
// remembers every endpoint that was decoding under a ratio different from its
// peer's encoder while the library counted a FEC recovery.
func (w *World) noteWrongRatioRecovery() {
	if !w.Mismatch {
		return
	}
	s := w.S
	rec := kcp.DefaultSnmp.Copy().FECRecovered
	if rec == w.lastRecovered {
		return
	}
	w.lastRecovered = rec
	for _, ep := range w.Eps {
		if ep.Closed || ep.Peer == nil {
			continue
		}
		fi := ep.Sess.VerifFEC()
		pc := w.connFEC[ep.Peer.Conn.id]
		if fi.Present && (fi.Data != pc[0] || fi.Parity != pc[1]) {
			if !ep.RecoveredUnderWrongRatio {
				s.L.Logf("%s: FEC recovery counted while decoding under %d/%d, peer encodes %d/%d", ep.Name, fi.Data, fi.Parity, pc[0], pc[1])
			}
			ep.RecoveredUnderWrongRatio = true
			s.Stats.Probe("fec-recovery-under-wrong-ratio")
		}
	}
}
