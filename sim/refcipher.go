package sim

import (
	"crypto/aes"
	"crypto/cipher"
	"crypto/des"
	"crypto/sha1"
	"encoding/binary"
	"fmt"
	"hash/crc32"

	kcp "github.com/xtaci/kcp-go/v5"

	"github.com/tjfoc/gmsm/sm4"
	"golang.org/x/crypto/blowfish"
	"golang.org/x/crypto/cast5"
	"golang.org/x/crypto/pbkdf2"
	"golang.org/x/crypto/salsa20"
	"golang.org/x/crypto/tea"
	"golang.org/x/crypto/twofish"
	"golang.org/x/crypto/xtea"
)

// This file is the harness's own view of kcp-go's packet protection, written
// from the README ("NONCE 16 bytes, CRC32 IEEE of data, CFB") with Go's
// crypto/cipher. It shares no code with the library's crypt.go. The fixed IV
// and the XOR cipher's salt are wire-compatibility constants of the protocol
// and are copied here as data.

var wireIV = []byte{167, 115, 79, 156, 18, 172, 27, 1, 164, 21, 242, 193, 252, 120, 230, 107}

const wireXorSalt = `sH3CIVoF#rWLtJo6`

// CipherNames lists the configurations of the swarm; index 0 is the simplest.
var CipherNames = []string{"null", "none", "xor", "aes-128", "salsa20", "aes-128-gcm", "aes-192", "aes-256", "sm4", "twofish", "3des", "cast5", "blowfish", "tea", "xtea", "aes-256-gcm"}

func cipherKeyLen(name string) int {
	switch name {
	case "aes-128", "sm4", "cast5", "tea", "xtea", "aes-128-gcm":
		return 16
	case "aes-192", "3des":
		return 24
	default:
		return 32
	}
}

// LibCipher builds the library's BlockCrypt for a configuration.
func LibCipher(name string, key []byte) (kcp.BlockCrypt, error) {
	switch name {
	case "null":
		return nil, nil
	case "none":
		return kcp.NewNoneBlockCrypt(key)
	case "xor":
		return kcp.NewSimpleXORBlockCrypt(key)
	case "aes-128", "aes-192", "aes-256":
		return kcp.NewAESBlockCrypt(key)
	case "salsa20":
		return kcp.NewSalsa20BlockCrypt(key)
	case "sm4":
		return kcp.NewSM4BlockCrypt(key)
	case "twofish":
		return kcp.NewTwofishBlockCrypt(key)
	case "3des":
		return kcp.NewTripleDESBlockCrypt(key)
	case "cast5":
		return kcp.NewCast5BlockCrypt(key)
	case "blowfish":
		return kcp.NewBlowfishBlockCrypt(key)
	case "tea":
		return kcp.NewTEABlockCrypt(key)
	case "xtea":
		return kcp.NewXTEABlockCrypt(key)
	case "aes-128-gcm", "aes-256-gcm":
		return kcp.NewAESGCMCrypt(key)
	}
	return nil, fmt.Errorf("unknown cipher %q", name)
}

// RefCipher is the independent implementation of the packet protection.
type RefCipher struct {
	Name  string
	kind  int // 0 null, 1 none, 2 xor, 3 cfb, 4 salsa, 5 aead
	block cipher.Block
	aead  cipher.AEAD
	key32 [32]byte
	xor   []byte
}

func NewRefCipher(name string, key []byte) (*RefCipher, error) {
	r := &RefCipher{Name: name}
	var err error
	switch name {
	case "null":
		r.kind = 0
	case "none":
		r.kind = 1
	case "xor":
		r.kind = 2
		r.xor = pbkdf2.Key(key, []byte(wireXorSalt), 32, 1500, sha1.New)
	case "salsa20":
		r.kind = 4
		copy(r.key32[:], key)
	case "aes-128-gcm", "aes-256-gcm":
		r.kind = 5
		var b cipher.Block
		if b, err = aes.NewCipher(key); err == nil {
			r.aead, err = cipher.NewGCM(b)
		}
	default:
		r.kind = 3
		switch name {
		case "aes-128", "aes-192", "aes-256":
			r.block, err = aes.NewCipher(key)
		case "sm4":
			r.block, err = sm4.NewCipher(key)
		case "twofish":
			r.block, err = twofish.NewCipher(key)
		case "3des":
			r.block, err = des.NewTripleDESCipher(key)
		case "cast5":
			r.block, err = cast5.NewCipher(key)
		case "blowfish":
			r.block, err = blowfish.NewCipher(key)
		case "tea":
			r.block, err = tea.NewCipherWithRounds(key, 16)
		case "xtea":
			r.block, err = xtea.NewCipher(key)
		default:
			err = fmt.Errorf("unknown cipher %q", name)
		}
	}
	return r, err
}

// HeaderSize is the number of bytes in front of the FEC/KCP payload.
func (r *RefCipher) HeaderSize() int {
	switch r.kind {
	case 0:
		return 0
	case 5:
		return r.aead.NonceSize()
	}
	return 20
}

// Overhead is the total number of bytes the protection adds to a datagram.
func (r *RefCipher) Overhead() int {
	if r.kind == 5 {
		return r.aead.NonceSize() + r.aead.Overhead()
	}
	return r.HeaderSize()
}

func (r *RefCipher) IsAEAD() bool { return r.kind == 5 }
func (r *RefCipher) IsNull() bool { return r.kind == 0 }

// crypt applies the raw cipher transformation to a whole datagram.
func (r *RefCipher) crypt(dst, src []byte, enc bool) {
	switch r.kind {
	case 0, 1:
		copy(dst, src)
	case 2:
		for i := range src {
			dst[i] = src[i] ^ r.xor[i%len(r.xor)]
		}
	case 3:
		iv := wireIV[:r.block.BlockSize()]
		if enc {
			cipher.NewCFBEncrypter(r.block, iv).XORKeyStream(dst, src)
		} else {
			cipher.NewCFBDecrypter(r.block, iv).XORKeyStream(dst, src)
		}
	case 4:
		if len(src) >= 8 {
			copy(dst[:8], src[:8])
			salsa20.XORKeyStream(dst[8:], src[8:], src[:8], &r.key32)
		} else {
			copy(dst, src)
		}
	}
}

// Open removes the protection from a datagram. It returns the nonce and the
// payload (FEC header or KCP segments); ok=false with a reason if the datagram
// is too short or fails the integrity check.
func (r *RefCipher) Open(raw []byte) (nonce, payload []byte, ok bool, why string) {
	switch r.kind {
	case 0:
		return nil, raw, true, ""
	case 5:
		ns := r.aead.NonceSize()
		if len(raw) < ns+r.aead.Overhead() {
			return nil, nil, false, "short"
		}
		pt, err := r.aead.Open(nil, raw[:ns], raw[ns:], nil)
		if err != nil {
			return nil, nil, false, "aead-tag"
		}
		return raw[:ns], pt, true, ""
	}
	if len(raw) < 20 {
		return nil, nil, false, "short"
	}
	pt := make([]byte, len(raw))
	r.crypt(pt, raw, false)
	sum := crc32.ChecksumIEEE(pt[20:])
	if sum != binary.LittleEndian.Uint32(pt[16:]) {
		return nil, nil, false, "crc"
	}
	return pt[:16], pt[20:], true, ""
}

// Seal protects payload with the given nonce material (16 bytes for the CRC
// ciphers, NonceSize for AEAD).
func (r *RefCipher) Seal(nonce, payload []byte) []byte {
	switch r.kind {
	case 0:
		return append([]byte(nil), payload...)
	case 5:
		ns := r.aead.NonceSize()
		out := make([]byte, ns, ns+len(payload)+r.aead.Overhead())
		copy(out, nonce)
		return r.aead.Seal(out, out[:ns], payload, nil)
	}
	pt := make([]byte, 20+len(payload))
	copy(pt[:16], nonce)
	copy(pt[20:], payload)
	binary.LittleEndian.PutUint32(pt[16:], crc32.ChecksumIEEE(pt[20:]))
	out := make([]byte, len(pt))
	r.crypt(out, pt, true)
	return out
}

// Plain returns the decrypted bytes of a whole datagram without checking
// integrity (CRC ciphers only), and SealRaw re-encrypts edited plaintext as is.
func (r *RefCipher) Plain(raw []byte) []byte {
	pt := make([]byte, len(raw))
	r.crypt(pt, raw, false)
	return pt
}

func (r *RefCipher) SealRaw(pt []byte) []byte {
	out := make([]byte, len(pt))
	r.crypt(out, pt, true)
	return out
}
