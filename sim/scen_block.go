package sim

import (
	"encoding/binary"
	"errors"
	"fmt"
	"sync/atomic"
	"time"

	kcp "github.com/xtaci/kcp-go/v5"
)

// C13: blocked Read / Write / Accept always wake - data, deadline, close, error.
//
// Scenario "block" (Mode S): 1-3 reader actors on one session, 1-3 writer actors
// on its peer, 0-2 acceptor actors on a listener; stimuli (data arrival, window
// opening, deadline changes of every kind, Close, transport errors, new peers)
// are released by the driver at seeded instants. After every step a small
// reference model of a blocking endpoint is evaluated at quiescence:
//
//  (1) no missed wake-up: no call is still pending although one of its outcomes
//      is enabled (data readable, window open for longer than one update
//      interval, deadline reached, session/listener closed, socket error seen);
//  (2) legal return: the outcome of every returning call was enabled at its
//      return (a timeout never before the deadline in force);
//  (3) after Close: Write fails, Read drains what was received and then fails,
//      a second Close reports an error.
//
// Payload is a set of uniquely tagged messages (message mode, one segment each),
// so that with several concurrent callers every message is still attributable:
// each must be read exactly once.

type blkMsg struct {
	id       uint64
	size     int
	admitted bool // its Write returned success
	read     bool
}

type blkSess struct {
	name          string
	ep            *Endpoint
	rd, wd        time.Time // deadlines in force (zero = none)
	closed        bool      // Close has returned
	closing       bool
	readErr       bool // a transport read error has been injected (and consumed by the read loop)
	wrErrAt       int  // SimConn.WriteErrs observed
	noDeadlines   bool // closed or failed: deadlines are no longer changed
	wrErrInjected bool
	writableSince time.Duration
	wasWritable   bool
	interval      time.Duration
}

type blkWorld struct {
	r       *Run
	s       *Sim
	x       *Xfer
	w       *World
	a, b    *blkSess // a writes, b reads
	msgs    map[uint64]*blkMsg
	next    uint64
	mss     int
	msgSize int
	readBuf int // size of the readers' buffers (smaller than msgSize: partial reads)
	partial int // bytes returned by partial reads

	readers, writers []*Actor
	acceptors        []*Actor
	lrd              time.Time // listener deadline
	lclosed          bool
	lreadErr         bool
	extraClients     int
	tearingDown      bool
	accepted         int
	stopIO           bool
}

var errInjected = errors.New("injected transport error")

func (bw *blkWorld) fillMsg(id uint64, size int) []byte {
	b := make([]byte, size)
	flowFill(id*0x9E3779B97F4A7C15+1, 0, b)
	if size >= 8 {
		binary.LittleEndian.PutUint64(b, id)
	}
	return b
}

func scenBlock(r *Run) {
	s := r.S
	t := s.Tape
	const cs, ev = "cfg", "stim"
	o := DrawXferOpt(t, r.Spec.Tier)
	o.Listen = t.Chance(cs, 500)
	o.BytesAB, o.BytesBA = 0, 0
	o.CfgA.Stream, o.CfgB.Stream = false, false
	o.CfgA.MTU, o.CfgB.MTU = 0, 0
	o.CfgA.RateLimit, o.CfgB.RateLimit = 0, 0
	// small windows so that writers block; faults mild so that the run makes progress
	o.CfgA.SndWnd = 1 + t.Choose(cs, 4)
	o.CfgB.RcvWnd = 1 + t.Choose(cs, 6)
	o.Link.Outages, o.Link.GEGoodBad = nil, 0
	if o.Link.LossPM > 150 {
		o.Link.LossPM = 150
	}
	if o.Link.BaseUs > 30000 {
		o.Link.BaseUs = 30000
	}
	o.MaxVirtual = 30 * time.Minute
	o.MaxSteps = 40000
	x := NewXfer(r, o)
	w := x.W
	bw := &blkWorld{r: r, s: s, x: x, w: w, msgs: map[uint64]*blkMsg{}}
	bw.a = &blkSess{name: "A", ep: x.A}
	ivl := func(c SessCfg) time.Duration {
		if c.SetNoDelay {
			return time.Duration(max(10, min(c.Interval, 5000))) * time.Millisecond
		}
		return 100 * time.Millisecond
	}
	bw.a.interval = ivl(o.CfgA)
	bw.mss = x.A.mss()
	// one message size per run: which of several blocked writers the runtime wakes
	// first must not change anything observable (see the determinism note below)
	bw.msgSize = 8 + t.Choose(cs, max(1, bw.mss-8))
	// read buffers: whole messages as a rule; in a third of the runs smaller than a
	// message, so that a Read leaves a remainder behind for the next reader (a
	// tape stream of its own: older tapes keep their meaning)
	bw.readBuf = 1500
	if t.Chance("cfg-rbuf", 350) {
		bw.readBuf = 1 + t.Choose("cfg-rbuf", bw.msgSize)
	}
	nReaders, nWriters := 1+t.Choose(cs, 3), 1+t.Choose(cs, 3)
	nStim := 4 + t.Skewed(cs, 0, 40)
	for i := 0; i < nWriters; i++ {
		bw.writers = append(bw.writers, s.NewActor(fmt.Sprintf("W%d", i)))
	}
	for i := 0; i < nReaders; i++ {
		bw.readers = append(bw.readers, s.NewActor(fmt.Sprintf("R%d", i)))
	}
	if o.Listen {
		// the transfer scenario's own acceptor adopts the first session; further
		// acceptors wait for further peers
		nAcc := t.Choose(cs, 3)
		for i := 0; i < nAcc; i++ {
			bw.acceptors = append(bw.acceptors, s.NewActor(fmt.Sprintf("ACC%d", i)))
		}
	}
	done := 0
	startReaders := func() {
		bw.b = &blkSess{name: "B", ep: x.B, interval: ivl(o.CfgB)}
		x.A.Out.NoCheck, x.B.Out.NoCheck = true, true // payload is tagged messages, not the flow stream
		for _, a := range bw.readers {
			bw.readLoop(a)
		}
		// the stimuli start once both sessions exist
		at := s.Now()
		for i := 0; i < nStim; i++ {
			at += time.Duration(t.Skewed(ev, 0, 400000)) * time.Microsecond
			s.At(at+time.Duration(i), "stimulus", func() {
				bw.stimulus()
				done++
			})
		}
	}
	if x.B != nil {
		startReaders()
	} else {
		x.OnAccept = func(*Endpoint) { startReaders() }
	}
	for _, a := range bw.writers {
		bw.writeLoop(a)
	}
	for _, a := range bw.acceptors {
		bw.acceptLoop(a)
	}
	s.Invariants = append(s.Invariants, bw.model)
	s.DoneKey = func(a *Actor, res any) string {
		switch v := res.(type) {
		case ioRes:
			e := ""
			if v.err != nil {
				e = "e"
				if isTimeout(v.err) {
					e = "t"
				}
			}
			return fmt.Sprintf("%s/%08d/%s", a.CallLabel, v.n, e)
		case error:
			return a.CallLabel + "/error"
		}
		return a.CallLabel
	}

	s.Run(func() bool { return done >= nStim })
	if s.Viol == nil && s.CapHit == "" {
		bw.afterClose()
	}
	r.Res.Progress = bw.countRead() > 0
	r.Res.Completed = s.Viol == nil && s.CapHit == ""
	r.Res.VirtualMs = int64(s.Now() / time.Millisecond)
	bw.tearingDown = true
	if s.Viol != nil {
		w.QuickClose()
		return
	}
	x.Census()
}

func (bw *blkWorld) countRead() int {
	n := 0
	for _, m := range bw.msgs {
		if m.read {
			n++
		}
	}
	return n
}

func (bw *blkWorld) sess(name string) *blkSess {
	if name == "A" {
		return bw.a
	}
	return bw.b
}

// ---------------------------------------------------------------------------
// actors
// ---------------------------------------------------------------------------

// Determinism note: when several goroutines are blocked on the same channel the
// Go runtime, not the seed, decides which of them a wake-up reaches. The actors
// of one pool are therefore interchangeable: they draw from one shared tape
// stream, all messages of a run have the same size, the event log does not name
// the actor, and the next call is issued by the lowest idle actor of the pool.
// The model state (how many calls are pending, which messages are unread) is
// then the same whichever goroutine the runtime picked.

// errClass is what the event log records for a returned error. When two causes
// are enabled at once (session closed AND transport failed), which one a call
// reports is decided by the runtime's choice among ready select cases, not by
// the seed; the log then records the class, so that the run stays reproducible.
func (bw *blkWorld) errClass(kind string, bs *blkSess, err error) string {
	if err == nil {
		return "<nil>"
	}
	if isTimeout(err) {
		return "timeout"
	}
	sockErr := bs.readErr
	if kind == "Write" {
		// injected, not "observed": whether the transport has already failed a write
		// can depend on the final flush of Close, which the runtime may or may not queue
		sockErr = bs.wrErrInjected
	}
	if (bs.closed || bs.closing) && (sockErr || bs.ep.Conn.IsClosed()) {
		return "closed-or-socket-error"
	}
	return err.Error()
}

// settle makes sure that from now on only one failure cause is enabled for new
// calls on the session: an expired deadline together with Close or a transport
// error would leave the choice of the reported error to the runtime.
func (bw *blkWorld) clearDeadlines(bs *blkSess) {
	if !bs.rd.IsZero() || !bs.wd.IsZero() {
		bs.rd, bs.wd = time.Time{}, time.Time{}
		bs.ep.Sess.SetDeadline(time.Time{})
		bw.s.L.Logf("stim (deadlines of %s cleared first)", bs.name)
	}
	bs.noDeadlines = true
}

func idleActor(pool []*Actor) *Actor {
	for _, a := range pool {
		if !a.Busy() {
			return a
		}
	}
	return nil
}

func (bw *blkWorld) writeLoop(_ *Actor) {
	s := bw.s
	const st = "actor/writers"
	var next func()
	next = func() {
		pause := time.Duration(s.Tape.Skewed(st, 0, 200000)) * time.Microsecond
		s.After(pause, "write", func() {
			a := idleActor(bw.writers)
			if bw.stopIO || a == nil {
				return
			}
			bw.next++
			id := bw.next
			size := bw.msgSize
			m := &blkMsg{id: id, size: size}
			bw.msgs[id] = m
			data := bw.fillMsg(id, size)
			sess := bw.a.ep.Sess
			start := s.Now()
			s.L.Logf("call writer Write(%d bytes)", size)
			a.Do("Write", func() any {
				n, err := sess.Write(data)
				return ioRes{n: n, err: err}
			}, func(res any) {
				if bw.panicRes(res, "Write") {
					return
				}
				rr := res.(ioRes)
				s.L.Logf("ret  writer Write -> %d %s", rr.n, bw.errClass("Write", bw.a, rr.err))
				bw.checkReturn("Write", bw.a, start, rr.n, rr.err, size)
				if rr.err == nil {
					m.admitted = true
				} else {
					delete(bw.msgs, id)
				}
				if rr.err != nil && !isTimeout(rr.err) {
					return // closed or socket error: this writer stops
				}
				if rr.err != nil {
					// the deadline stays expired until a stimulus changes it: do not spin
					s.After(100*time.Millisecond, "write-backoff", next)
					return
				}
				next()
			})
		})
	}
	next()
}

func (bw *blkWorld) readLoop(_ *Actor) {
	s := bw.s
	const st = "actor/readers"
	var next func()
	next = func() {
		pause := time.Duration(0)
		if s.Tape.Chance(st, 400) {
			pause = time.Duration(s.Tape.Skewed(st, 0, 500000)) * time.Microsecond
		}
		s.After(pause, "read", func() {
			a := idleActor(bw.readers)
			if bw.stopIO || a == nil {
				return
			}
			buf := make([]byte, bw.readBuf)
			sess := bw.b.ep.Sess
			start := s.Now()
			s.L.Logf("call reader Read")
			a.Do("Read", func() any {
				n, err := sess.Read(buf)
				return ioRes{n: n, err: err, buf: buf}
			}, func(res any) {
				if bw.panicRes(res, "Read") {
					return
				}
				rr := res.(ioRes)
				s.L.Logf("ret  reader Read -> %d %s", rr.n, bw.errClass("Read", bw.b, rr.err))
				bw.checkReturn("Read", bw.b, start, rr.n, rr.err, 0)
				if rr.err == nil && bw.readBuf >= bw.msgSize {
					bw.checkMsg(a, rr.buf[:rr.n])
				} else if rr.err == nil {
					// pieces of messages, handed to whichever reader comes next: only the
					// amounts are judged here (the wake-up rules are what this run is for)
					bw.partial += rr.n
					if rr.n <= 0 || rr.n > bw.readBuf {
						s.Fail("C13", "data", "bad-read-length", "Read into a %d-byte buffer returned %d without error", bw.readBuf, rr.n)
					}
					s.Stats.Probe("partial-read")
				}
				if rr.err != nil && !isTimeout(rr.err) {
					return
				}
				if rr.err != nil {
					s.After(100*time.Millisecond, "read-backoff", next)
					return
				}
				next()
			})
		})
	}
	next()
}

func (bw *blkWorld) acceptLoop(_ *Actor) {
	s := bw.s
	l := bw.w.L
	var next func()
	next = func() {
		s.After(0, "accept", func() {
			a := idleActor(bw.acceptors)
			if bw.lclosed || a == nil || bw.stopIO {
				return
			}
			if nowT := s.Epoch().Add(s.Now()); !bw.lrd.IsZero() && !nowT.Before(bw.lrd) {
				if n, _ := l.VerifBacklog(); n > 0 {
					// an expired deadline AND a waiting session: which of the two Accept
					// reports is the runtime's choice among ready select cases; not issued
					s.Stats.Probe("accept-not-issued-two-outcomes-enabled")
					return
				}
			}
			start := s.Now()
			s.L.Logf("call acceptor Accept")
			a.Do("Accept", func() any {
				sess, err := l.AcceptKCP()
				if err != nil {
					return err
				}
				return sess
			}, func(res any) {
				if bw.panicRes(res, "Accept") {
					return
				}
				if sess, ok := res.(*kcp.UDPSession); ok {
					s.L.Logf("ret  acceptor Accept -> session from %s", sess.RemoteAddr())
					bw.accepted++
					// an extra peer: adopt it so that teardown closes it
					ep := &Endpoint{Name: fmt.Sprintf("X%d", bw.accepted), W: bw.w, Sess: sess, Conn: bw.w.LConn, Local: bw.w.LConn.addrStr, Remote: sess.RemoteAddr().String(), MTU: 1400, Accepted: true}
					ep.Out, ep.In = bw.w.newFlow(ep.Name+">x"), bw.w.newFlow("x>"+ep.Name)
					ep.Out.NoCheck, ep.In.NoCheck = true, true
					bw.w.Eps = append(bw.w.Eps, ep)
					bw.w.byFlow[ep.Local+">"+ep.Remote] = ep
					next()
					return
				}
				err := res.(error)
				if isTimeout(err) {
					s.L.Logf("ret  acceptor Accept -> timeout")
				} else {
					s.L.Logf("ret  acceptor Accept -> error") // closed and socket error may both be enabled
				}
				if bw.tearingDown {
					return
				}
				switch {
				case isTimeout(err):
					if bw.lrd.IsZero() {
						s.Fail("C13", "legal-return", "accept-timeout-without-deadline", "Accept timed out although no deadline is set")
					} else if now := s.Epoch().Add(s.Now()); now.Before(bw.lrd) {
						s.Fail("C13", "legal-return", "accept-timeout-early", "Accept timed out %v before the deadline", bw.lrd.Sub(now))
					}
					s.Stats.Probe("accept-timeout")
					_ = start
					// the deadline stays expired: do not spin
					return
				case isClosedPipe(err):
					if !bw.lclosed {
						s.Fail("C13", "legal-return", "accept-closed-without-close", "Accept reports a closed listener, Close was not called")
					}
				default:
					if !bw.lreadErr {
						s.Fail("C13", "legal-return", "accept-error-without-cause", "Accept returned %v", err)
					}
				}
			})
		})
	}
	next()
}

func (bw *blkWorld) panicRes(res any, what string) bool {
	if pr, ok := res.(PanicResult); ok {
		bw.s.Fail("C05", "survive", "panic-in-"+what, "%s panicked: %s at %s", what, pr.Value, pr.Stack)
		return true
	}
	return false
}

// checkMsg: every message is read exactly once and intact.
func (bw *blkWorld) checkMsg(_ *Actor, b []byte) {
	s := bw.s
	if bw.readBuf < bw.msgSize {
		return // runs with partial reads hand out pieces of messages
	}
	a := struct{ Name string }{"a reader"}
	if len(b) < 8 {
		s.Fail("C13", "data", "short-message", "%s: Read returned %d bytes, every message has at least 8", a.Name, len(b))
		return
	}
	id := binary.LittleEndian.Uint64(b)
	m := bw.msgs[id]
	if m == nil {
		s.Fail("C13", "data", "unknown-message", "%s: Read returned a message (id %d, %d bytes) that no Write call handed over", a.Name, id, len(b))
		return
	}
	if m.read {
		s.Fail("C13", "data", "message-read-twice", "%s: message %d was returned by two Read calls", a.Name, id)
		return
	}
	exp := bw.fillMsg(id, m.size)
	if len(b) != m.size || string(b) != string(exp) {
		s.Fail("C13", "data", "message-altered", "%s: message %d: %d bytes returned, %d written, or content differs", a.Name, id, len(b), m.size)
		return
	}
	m.read = true
	s.Stats.Probe("message-read")
}

// checkReturn is rule (2): the outcome of a returning Read/Write was enabled.
func (bw *blkWorld) checkReturn(kind string, bs *blkSess, start time.Duration, n int, err error, want int) {
	s := bw.s
	if bw.tearingDown {
		return // the harness is closing everything in a seeded order
	}
	now := s.Epoch().Add(s.Now())
	dl := bs.rd
	if kind == "Write" {
		dl = bs.wd
	}
	switch {
	case err == nil:
		if kind == "Write" && n != want {
			s.Fail("C13", "legal-return", "short-write", "Write returned %d of %d bytes without error", n, want)
		}
		if kind == "Write" {
			s.Stats.Probe("write-returned")
		}
	case isTimeout(err):
		s.Stats.Probe(kind + "-timeout")
		if n != 0 {
			s.Fail("C13", "legal-return", "timeout-with-bytes", "%s returned n=%d with a timeout", kind, n)
		}
		if dl.IsZero() {
			s.Fail("C13", "legal-return", "timeout-without-deadline", "%s on %s timed out although no deadline is in force", kind, bs.name)
		} else if now.Before(dl) {
			s.Fail("C13", "legal-return", "timeout-early", "%s on %s timed out %v before the deadline in force", kind, bs.name, dl.Sub(now))
		}
	case isClosedPipe(err):
		s.Stats.Probe(kind + "-closed")
		if !bs.closed && !bs.closing {
			s.Fail("C13", "legal-return", "closed-without-close", "%s on %s reports a closed session, Close was not called", kind, bs.name)
		}
	default:
		s.Stats.Probe(kind + "-socket-error")
		if (bs.closed || bs.closing) && bs.ep.Conn.IsClosed() {
			// Close of a session that owns its transport closes the transport; the
			// read loop's resulting error is as good a report of the close as any
			break
		}
		if kind == "Read" && !bs.readErr {
			s.Fail("C13", "legal-return", "error-without-cause", "Read on %s returned %v, no transport error was injected", bs.name, err)
		}
		if kind == "Write" && atomic.LoadInt32(&bs.ep.Conn.WriteErrs) == 0 {
			s.Fail("C13", "legal-return", "error-without-cause", "Write on %s returned %v, the transport has not failed a write", bs.name, err)
		}
	}
}

// ---------------------------------------------------------------------------
// stimuli
// ---------------------------------------------------------------------------

func (bw *blkWorld) stimulus() {
	s := bw.s
	const ev = "stim"
	t := s.Tape
	if bw.b == nil {
		return // nothing accepted yet
	}
	now := s.Epoch().Add(s.Now())
	drawDeadline := func() time.Time {
		switch t.Choose(ev, 5) {
		case 0:
			return time.Time{} // clear
		case 1:
			return now.Add(-time.Duration(1+t.Choose(ev, 2000)) * time.Millisecond) // past
		case 2:
			return now.Add(time.Duration(1+t.Skewed(ev, 0, 3000000)) * time.Microsecond)
		case 3:
			return now.Add(time.Duration(1+t.Skewed(ev, 0, 60000)) * time.Millisecond) // later
		default:
			return now.Add(time.Duration(1+t.Choose(ev, 50)) * time.Millisecond)
		}
	}
	kind := t.Choose(ev, 12)
	switch kind {
	case 0, 1, 2:
		bs := bw.b
		if t.Chance(ev, 200) {
			bs = bw.a
		}
		if bs.closed || bs.closing || bs.noDeadlines {
			return
		}
		d := drawDeadline()
		s.L.Logf("stim SetReadDeadline(%s, %s)", bs.name, fmtDL(d, now))
		s.Stats.Fault(deadlineKind("read", bs.rd, d, now))
		bs.rd = d
		bs.ep.Sess.SetReadDeadline(d)
	case 3, 4, 5:
		bs := bw.a
		if t.Chance(ev, 200) {
			bs = bw.b
		}
		if bs.closed || bs.closing || bs.noDeadlines {
			return
		}
		d := drawDeadline()
		s.L.Logf("stim SetWriteDeadline(%s, %s)", bs.name, fmtDL(d, now))
		s.Stats.Fault(deadlineKind("write", bs.wd, d, now))
		bs.wd = d
		bs.ep.Sess.SetWriteDeadline(d)
	case 6:
		bs := bw.b
		if t.Chance(ev, 500) {
			bs = bw.a
		}
		if bs.closed || bs.closing || bs.noDeadlines {
			return
		}
		d := drawDeadline()
		s.L.Logf("stim SetDeadline(%s, %s)", bs.name, fmtDL(d, now))
		s.Stats.Fault(deadlineKind("both", bs.rd, d, now))
		bs.rd, bs.wd = d, d
		bs.ep.Sess.SetDeadline(d)
	case 7:
		// Close a session (rarely, so that most of the run has live sessions)
		if !t.Chance(ev, 350) {
			return
		}
		bs := bw.b
		if t.Chance(ev, 500) {
			bs = bw.a
		}
		bw.closeSess(bs, false)
	case 8:
		// transport errors
		if !t.Chance(ev, 300) {
			return
		}
		if t.Chance(ev, 500) && !bw.x.Opt.Listen {
			bw.clearDeadlines(bw.b)
			s.L.Logf("stim inject read error on %s's transport", bw.b.name)
			s.Stats.Fault("transport-read-error")
			bw.b.readErr = true
			bw.b.ep.Conn.InjectReadError(errInjected)
		} else {
			bw.clearDeadlines(bw.a)
			s.L.Logf("stim inject write error on %s's transport", bw.a.name)
			s.Stats.Fault("transport-write-error")
			bw.a.wrErrInjected = true
			bw.a.ep.Conn.InjectWriteError(errInjected)
		}
	case 9:
		// listener: deadline
		if bw.w.L == nil || bw.lclosed || bw.lreadErr {
			return
		}
		d := drawDeadline()
		s.L.Logf("stim Listener.SetDeadline(%s)", fmtDL(d, now))
		s.Stats.Fault(deadlineKind("accept", bw.lrd, d, now))
		bw.lrd = d
		bw.w.L.SetDeadline(d)
		for _, a := range bw.acceptors {
			if !a.Busy() {
				bw.acceptLoop(nil) // an acceptor that had timed out tries again
			}
		}
	case 10:
		// listener: a new peer connects (one datagram is enough)
		if bw.w.L == nil || bw.lclosed || bw.extraClients >= 4 {
			return
		}
		bw.extraClients++
		h := 10 + bw.extraClients
		ep := bw.w.Dial(fmt.Sprintf("C%d", h), h, uint32(0x3000+h), SessCfg{})
		ep.Out.NoCheck = true
		ep.In = bw.w.newFlow("x>" + ep.Name)
		ep.In.NoCheck = true
		s.L.Logf("stim new peer %s connects", ep.Name)
		s.Stats.Fault("new-peer")
		ep.Sess.Write([]byte("hello-from-a-new-peer"))
	case 11:
		// listener: Close or transport read error
		if bw.w.L == nil || bw.lclosed || !t.Chance(ev, 250) {
			return
		}
		if !bw.lrd.IsZero() {
			bw.lrd = time.Time{}
			bw.w.L.SetDeadline(time.Time{})
		}
		if t.Chance(ev, 600) {
			s.L.Logf("stim Listener.Close")
			s.Stats.Fault("listener-close")
			bw.lclosed = true
			bw.w.L.Close()
		} else {
			s.L.Logf("stim inject read error on the listener's transport")
			s.Stats.Fault("listener-read-error")
			bw.lreadErr = true
			bw.clearDeadlines(bw.b)
			bw.b.readErr = true // propagated to accepted sessions
			bw.w.LConn.InjectReadError(errInjected)
		}
	}
}

func fmtDL(d, now time.Time) string {
	if d.IsZero() {
		return "none"
	}
	return fmt.Sprintf("now%+v", d.Sub(now))
}

func deadlineKind(what string, old, new, now time.Time) string {
	switch {
	case old.IsZero() && new.IsZero():
		return what + "-deadline:none->none"
	case old.IsZero() && new.Before(now):
		return what + "-deadline:none->past"
	case old.IsZero():
		return what + "-deadline:none->set"
	case new.IsZero():
		return what + "-deadline:set->none"
	case new.Before(now):
		return what + "-deadline:set->past"
	case new.After(old):
		return what + "-deadline:set->later"
	default:
		return what + "-deadline:set->earlier"
	}
}

func (bw *blkWorld) closeSess(bs *blkSess, second bool) {
	s := bw.s
	if bs == nil || (bs.closed && !second) {
		return
	}
	if !bs.closed {
		bw.clearDeadlines(bs)
	}
	s.L.Logf("stim Close(%s)", bs.name)
	s.Stats.Fault("close")
	bs.closing = true
	bs.ep.CloseInvoked = true
	err := bs.ep.Sess.Close()
	bs.ep.Closed = true
	if !bs.closed {
		if err != nil && bs.ep.Conn.IsClosed() == false && !bs.ep.Accepted {
			// the first Close of a session may report the transport's own close error only
			s.L.Logf("first Close(%s) -> %v", bs.name, err)
		}
	} else if err == nil {
		s.Fail("C13", "after-close", "second-close-no-error", "second Close of %s returned nil", bs.name)
	}
	bs.closed = true
}

// ---------------------------------------------------------------------------
// the reference model, evaluated at every quiescence
// ---------------------------------------------------------------------------

func (bw *blkWorld) model() {
	s := bw.s
	if bw.b == nil || bw.tearingDown {
		return
	}
	if s.ParkedNow() > 0 {
		// a goroutine the harness itself holds right after its wake-up is exempt
		// until it has been released (in this same instant) and has settled
		return
	}
	now := s.Epoch().Add(s.Now())
	// readers on B
	carry, peek := 0, -1
	if !bw.b.ep.Closed || true {
		carry, peek = bw.b.ep.Sess.VerifReadable()
	}
	readable := carry > 0 || peek > 0
	for _, a := range bw.readers {
		if !a.Busy() || a.CallLabel != "Read" {
			continue
		}
		waited := s.Now() - a.CallStart
		switch {
		case readable:
			s.Fail("C13", "missed-wakeup", "read-pending-with-data", "a reader has been blocked in Read for %v although data is readable (carry-over %d bytes, next message %d bytes)", waited, carry, peek)
		case bw.b.closed:
			s.Fail("C13", "missed-wakeup", "read-pending-after-close", "a reader is still blocked in Read after the session was closed")
		case bw.b.readErr:
			s.Fail("C13", "missed-wakeup", "read-pending-after-socket-error", "a reader is still blocked in Read after the transport reported a read error")
		case !bw.b.rd.IsZero() && !now.Before(bw.b.rd):
			s.Fail("C13", "missed-wakeup", "read-pending-past-deadline", "a reader is still blocked in Read %v after the read deadline (call started %v ago)", now.Sub(bw.b.rd), waited)
		}
	}
	// writers on A
	stA := bw.a.ep.StateLite()
	sndWnd := int(stA.SndWnd)
	writable := stA.SndQueue+stA.SndBuf < sndWnd
	if writable && !bw.a.wasWritable {
		bw.a.writableSince = s.Now()
	}
	bw.a.wasWritable = writable
	for _, a := range bw.writers {
		if !a.Busy() || a.CallLabel != "Write" {
			continue
		}
		waited := s.Now() - a.CallStart
		switch {
		case bw.a.closed:
			s.Fail("C13", "missed-wakeup", "write-pending-after-close", "a writer is still blocked in Write after the session was closed")
		case atomic.LoadInt32(&bw.a.ep.Conn.WriteErrs) > 0:
			s.Fail("C13", "missed-wakeup", "write-pending-after-socket-error", "a writer is still blocked in Write after the transport failed a write")
		case !bw.a.wd.IsZero() && !now.Before(bw.a.wd):
			s.Fail("C13", "missed-wakeup", "write-pending-past-deadline", "a writer is still blocked in Write %v after the write deadline (call started %v ago)", now.Sub(bw.a.wd), waited)
		case writable && s.Now()-bw.a.writableSince > bw.a.interval+time.Millisecond && waited > bw.a.interval+time.Millisecond:
			s.Fail("C13", "missed-wakeup", "write-pending-with-window", "a writer has been blocked in Write although the send window has had room for %v (%d of %d segments pending)", s.Now()-bw.a.writableSince, stA.SndQueue+stA.SndBuf, sndWnd)
		}
	}
	// acceptors
	if bw.w.L != nil {
		backlog, _ := bw.w.L.VerifBacklog()
		for _, a := range bw.acceptors {
			if !a.Busy() || a.CallLabel != "Accept" {
				continue
			}
			switch {
			case backlog > 0:
				s.Fail("C13", "missed-wakeup", "accept-pending-with-backlog", "an acceptor is blocked in Accept although %d session(s) wait in the backlog", backlog)
			case bw.lclosed:
				s.Fail("C13", "missed-wakeup", "accept-pending-after-close", "an acceptor is still blocked in Accept after the listener was closed")
			case bw.lreadErr:
				s.Fail("C13", "missed-wakeup", "accept-pending-after-socket-error", "an acceptor is still blocked in Accept after the transport reported a read error")
			case !bw.lrd.IsZero() && !now.Before(bw.lrd):
				s.Fail("C13", "missed-wakeup", "accept-pending-past-deadline", "an acceptor is still blocked in Accept %v after the listener's deadline", now.Sub(bw.lrd))
			}
		}
	}
}

// afterClose is rule (3).
func (bw *blkWorld) afterClose() {
	s := bw.s
	bw.stopIO = true
	if bw.b == nil {
		return
	}
	// let outstanding calls finish: clear deadlines would change state, so just close
	// A first (the writer side), then check B drains and fails
	if !bw.a.closed {
		bw.closeSess(bw.a, false)
	}
	s.Settle(50 * time.Millisecond)
	if s.Viol != nil {
		return
	}
	// Write after Close fails
	if _, err := bw.a.ep.Sess.Write([]byte("after-close")); err == nil {
		s.Fail("C13", "after-close", "write-after-close-succeeds", "Write on the closed session %s returned nil", bw.a.name)
		return
	}
	// a second Close reports an error
	bw.closeSess(bw.a, true)
	// B: Close, then Read must first return what was received, then fail
	if !bw.b.closed {
		// wait until B's readers are idle or blocked; then close
		bw.closeSess(bw.b, false)
	}
	s.Settle(50 * time.Millisecond)
	if s.Viol != nil {
		return
	}
	for _, a := range bw.readers {
		if a.Busy() {
			s.Fail("C13", "missed-wakeup", "read-pending-after-close", "a reader is still blocked in Read after the session was closed")
			return
		}
	}
	bw.b.ep.Sess.SetReadDeadline(time.Time{})
	for i := 0; i < 10000; i++ {
		carry, peek := bw.b.ep.Sess.VerifReadable()
		buf := make([]byte, 1500)
		n, err := bw.b.ep.Sess.Read(buf)
		if carry > 0 || peek > 0 {
			if err != nil {
				s.Fail("C13", "after-close", "read-after-close-loses-data", "Read on the closed session %s returned %v although %d received bytes were still waiting", bw.b.name, err, max(carry, peek))
				return
			}
			bw.checkMsg(bw.readers[0], buf[:n])
			s.Stats.Probe("drained-after-close")
			continue
		}
		if err == nil {
			s.Fail("C13", "after-close", "read-after-close-succeeds", "Read on the closed and drained session %s returned %d bytes and no error", bw.b.name, n)
		}
		// which error it is (closed pipe, or the transport's own close error that
		// the session's Close provoked) is not part of the statement
		break
	}
	bw.closeSess(bw.b, true)
}

func init() {
	Register("block", false, scenBlock)
}
