package main

import (
	"fmt"
	"sort"
	"strings"
	"time"

	"verifsim/proto"
)

type evidence struct {
	PropertyID  string         `json:"property_id"`
	Tier        string         `json:"tier"`
	Seed        int64          `json:"seed"`
	Level       string         `json:"level"`
	Coverage    map[string]any `json:"coverage"`
	Assumptions []string       `json:"assumptions"`
	WallS       float64        `json:"wall_s"`
	Violations  int            `json:"violations"`
}

func buildEvidence(prop, tier string, seed int64, plan *propPlan, results []proto.RunResult, p *pool, reruns, diverged, minimisations, nviol int, total, runWall time.Duration) evidence {
	ev := evidence{PropertyID: prop, Tier: tier, Seed: seed, Level: plan.Level, WallS: total.Seconds(), Violations: nviol}
	faults := map[string]int{}
	probes := map[string]int{}
	foreign := map[string]int{}
	hashes := map[string]bool{}
	shapes := map[string]bool{}
	nontrivial := map[string]bool{}
	perScenario := map[string]int{}
	caps := map[string]int{}
	var virtualMs, steps int64
	completed, progressed, cases := 0, 0, 0
	for _, r := range results {
		stratum := r.Stratum
		if i := strings.Index(stratum, ":"); i >= 0 {
			stratum = stratum[:i]
		}
		perScenario[r.Scenario+"/"+stratum]++
		for k, v := range r.Faults {
			faults[k] += v
		}
		for k, v := range r.Probes {
			probes[k] += v
		}
		for k, v := range r.Foreign {
			foreign[k] += v
		}
		if r.LogHash != "" {
			hashes[r.LogHash] = true
			shapes[r.ShapeHash] = true
		}
		if r.CapHit != "" {
			caps[r.CapHit]++
		}
		virtualMs += r.VirtualMs
		steps += int64(r.Steps)
		if r.Completed {
			completed++
		}
		if r.Progress {
			progressed++
		}
		cases += r.Cases
		nf := 0
		for _, v := range r.Faults {
			nf += v
		}
		if plan.Nontrivial(&r, nf) && r.LogHash != "" {
			nontrivial[r.LogHash] = true
		}
	}
	// samples: a few complete run descriptors, deterministic choice
	sorted := append([]proto.RunResult(nil), results...)
	sort.SliceStable(sorted, func(i, j int) bool { return sorted[i].Seed < sorted[j].Seed })
	var samples []any
	seenScen := map[string]int{}
	for _, r := range sorted {
		k := r.Scenario + "/" + r.Stratum
		if seenScen[k] >= 2 || len(samples) >= 8 {
			continue
		}
		nf := 0
		for _, v := range r.Faults {
			nf += v
		}
		if !plan.Nontrivial(&r, nf) {
			continue
		}
		seenScen[k]++
		samples = append(samples, map[string]any{
			"scenario": r.Scenario, "stratum": r.Stratum, "run_seed": r.Seed, "config": r.Config, "steps": r.Steps, "virtual_ms": r.VirtualMs,
			"faults_fired": r.Faults, "probes": r.Probes, "event_log_hash": r.LogHash, "completed": r.Completed, "tape_draws": r.Draws, "enumerated_cases": r.Cases,
		})
	}
	if len(samples) == 0 {
		for _, r := range sorted {
			if len(samples) >= 3 {
				break
			}
			samples = append(samples, map[string]any{"scenario": r.Scenario, "stratum": r.Stratum, "run_seed": r.Seed, "config": r.Config, "steps": r.Steps, "event_log_hash": r.LogHash})
		}
	}
	hours := runWall.Hours()
	if hours <= 0 {
		hours = 1e-9
	}
	evals := len(results)
	distinct := len(nontrivial)
	if plan.CountCases && cases > 0 {
		// enumerated cases plus the sampled runs that are not enumerations
		evals = cases
		for _, r := range results {
			if r.Cases == 0 {
				evals++
			}
		}
	}
	cov := map[string]any{
		"evaluations":                         evals,
		"distinct_nontrivial":                 distinct,
		"rule":                                plan.Rule,
		"samples":                             samples,
		"simulated_runs":                      len(results),
		"enumerated_cases":                    cases,
		"runs_per_hour":                       int(float64(len(results)) / hours),
		"seeds_per_hour":                      int(float64(len(results)) / hours),
		"simulated_time_s":                    float64(virtualMs) / 1000,
		"simulator_steps":                     steps,
		"fault_kinds_fired":                   faults,
		"reach_probes":                        probes,
		"distinct_event_log_hashes":           len(hashes),
		"distinct_stimulus_shapes":            len(shapes),
		"runs_completed":                      completed,
		"runs_with_progress":                  progressed,
		"runs_stopped_by_cap":                 caps,
		"runs_skipped_by_wall_clock":          p.skipped,
		"runs_per_scenario":                   perScenario,
		"determinism_reruns":                  reruns,
		"determinism_divergences":             diverged,
		"minimisations":                       minimisations,
		"violations_of_other_properties_seen": foreign,
		"components_real":                     plan.Real,
		"components_stubbed":                  plan.Stub,
		"exhaustive":                          false,
	}
	if plan.Exhaustive != nil && plan.Exhaustive(tier) && p.skipped == 0 {
		cov["exhaustive"] = true
	}
	ev.Coverage = cov
	ev.Assumptions = append([]string(nil), plan.Assumptions...)
	// blind spots: probes the plan cares about that stayed at zero
	for _, pr := range plan.WantProbes {
		if probes[pr] == 0 && faults[pr] == 0 {
			ev.Assumptions = append(ev.Assumptions, fmt.Sprintf("blind spot in this run: reach probe %q stayed at zero", pr))
		}
	}
	return ev
}
