package main

import (
	"time"

	"verifsim/proto"
)

type planItem struct {
	Scenario, Stratum string
	Quick, Thorough   int // number of runs
	PerJob            int
}

type propPlan struct {
	Level          string
	Items          []planItem
	QuickBudget    time.Duration // wall-clock cap for dispatching runs
	ThoroughBudget time.Duration
	PerRunTimeout  time.Duration
	Race           bool
	NoDeterminism  bool
	CountCases     bool
	Rule           string
	Real, Stub     []string
	Assumptions    []string
	WantProbes     []string
	nontrivial     func(r *proto.RunResult, faultsFired int) bool
	Exhaustive     func(tier string) bool
}

func (p *propPlan) Nontrivial(r *proto.RunResult, faultsFired int) bool {
	if p.nontrivial != nil {
		return p.nontrivial(r, faultsFired)
	}
	return faultsFired > 0 && r.Progress
}

func (p *propPlan) MinimiseBudget(tier string) time.Duration {
	if tier == "thorough" {
		return 180 * time.Second
	}
	return 45 * time.Second
}

var realSession = []string{"KCP core (kcp.go)", "FEC encoder/decoder + auto-tuner (fec.go, autotune.go)", "ciphers (crypt.go)", "UDPSession / Listener (sess.go)", "read loops and tx, default and Linux batch loops via simulated batch conn (readloop*.go, tx*.go)", "TimedSched (timedsched.go, with hook H3)", "buffer pool call sites (bufferpool.go, sync.Pool replaced by sanitizer via H4)", "ring buffers", "x/time/rate"}
var stubSession = []string{"net.PacketConn (simulated network: loss, duplication, delay, reordering, outages, burst loss)", "OS clock and timers (testing/synctest fake clock)", "nonce entropy (seeded stream via SetEntropy)", "sendmmsg/recvmmsg system calls (behind the simulated batch interface)", "goroutine scheduling (serialised: one stimulus per quiescence)"}
var realCore = []string{"KCP core (kcp.go)", "ring buffers", "FEC encoder/decoder + auto-tuner where stated", "buffer pool call sites (sanitizer via H4)"}
var stubCore = []string{"transport between cores (simulated network)", "OS clock (testing/synctest fake clock)", "session layer (not involved: raw core driven directly)"}

const ruleRuns = "one evaluation = one seeded simulated run (configuration, workload, schedule and per-datagram fates all drawn from the run's decision tape); a run is non-trivial if at least one injected fault fired AND payload reached a reader; distinct = distinct event-log hashes among non-trivial runs"

var assumeCommon = []string{
	"testing/synctest's fake clock and quiescence detection are faithful to the real runtime",
	"the serialised driver explores interleavings at the granularity of whole causal cascades plus the armed yield points; finer interleavings inside a cascade are the runtime's",
	"sendmmsg/recvmmsg system calls and real sockets are outside every simulation",
	"a clean batch is evidence, not proof",
}

var plans = map[string]*propPlan{}

func init() {
	plans["C01"] = &propPlan{
		Level: "exploration",
		Items: []planItem{
			{Scenario: "xfer", Stratum: "", Quick: 900, Thorough: 30000},
			{Scenario: "xfer", Stratum: "clean", Quick: 150, Thorough: 3000},
		},
		QuickBudget: 45 * time.Second, ThoroughBudget: 20 * time.Minute,
		Rule: ruleRuns + "; stratum 'clean' runs the same swarm without faults (there a run is non-trivial if it completed)",
		Real: realSession, Stub: stubSession, Assumptions: assumeCommon,
		WantProbes: []string{"drop", "duplicate", "reorder-delay", "retransmission-on-wire", "fec-parity-verified"},
		nontrivial: func(r *proto.RunResult, nf int) bool { return r.Progress && (nf > 0 || r.Stratum == "clean") },
	}
}
