package main

import (
	"time"

	"verifsim/proto"
)

type planItem struct {
	Scenario, Stratum string
	Quick, Thorough   int // number of runs
	PerJob            int
	// Combos: the runs of this item are not drawn but enumerated: run i gets
	// stratum "combo:i" (Quick/Thorough then give the number of combinations)
	Combos bool
}

type propPlan struct {
	Level          string
	Items          []planItem
	QuickBudget    time.Duration // wall-clock cap for dispatching runs
	ThoroughBudget time.Duration
	PerRunTimeout  time.Duration
	Race           bool
	NoDeterminism  bool
	CountCases     bool
	Rule           string
	Real, Stub     []string
	Assumptions    []string
	WantProbes     []string
	nontrivial     func(r *proto.RunResult, faultsFired int) bool
	Exhaustive     func(tier string) bool
}

func (p *propPlan) Nontrivial(r *proto.RunResult, faultsFired int) bool {
	if p.nontrivial != nil {
		return p.nontrivial(r, faultsFired)
	}
	return faultsFired > 0 && r.Progress
}

func (p *propPlan) MinimiseBudget(tier string) time.Duration {
	if tier == "thorough" {
		return 180 * time.Second
	}
	return 45 * time.Second
}

var realSession = []string{"KCP core (kcp.go)", "FEC encoder/decoder + auto-tuner (fec.go, autotune.go)", "ciphers (crypt.go)", "UDPSession / Listener (sess.go)", "read loops and tx, default and Linux batch loops via simulated batch conn (readloop*.go, tx*.go)", "TimedSched (timedsched.go, with hook H3)", "buffer pool call sites (bufferpool.go, sync.Pool replaced by sanitizer via H4)", "ring buffers", "x/time/rate"}
var stubSession = []string{"net.PacketConn (simulated network: loss, duplication, delay, reordering, outages, burst loss)", "OS clock and timers (testing/synctest fake clock)", "nonce entropy (seeded stream via SetEntropy)", "sendmmsg/recvmmsg system calls (behind the simulated batch interface)", "goroutine scheduling (serialised: one stimulus per quiescence)"}
var realCore = []string{"KCP core (kcp.go)", "ring buffers", "FEC encoder/decoder + auto-tuner where stated", "buffer pool call sites (sanitizer via H4)"}
var stubCore = []string{"transport between cores (simulated network)", "OS clock (testing/synctest fake clock)", "session layer (not involved: raw core driven directly)"}

const ruleRuns = "one evaluation = one seeded simulated run (configuration, workload, schedule and per-datagram fates all drawn from the run's decision tape); a run is non-trivial if at least one injected fault fired AND payload reached a reader; distinct = distinct event-log hashes among non-trivial runs"

var assumeCommon = []string{
	"testing/synctest's fake clock and quiescence detection are faithful to the real runtime",
	"the serialised driver explores interleavings at the granularity of whole causal cascades plus the armed yield points; finer interleavings inside a cascade are the runtime's",
	"sendmmsg/recvmmsg system calls and real sockets are outside every simulation",
	"a clean batch is evidence, not proof",
}

var plans = map[string]*propPlan{}

func init() {
	plans["C01"] = &propPlan{
		Level: "exploration",
		Items: []planItem{
			{Scenario: "xfer", Stratum: "", Quick: 900, Thorough: 30000},
			{Scenario: "xfer", Stratum: "clean", Quick: 150, Thorough: 3000},
			{Scenario: "core", Stratum: "", Quick: 1500, Thorough: 60000, PerJob: 32},
			{Scenario: "sess-mtu", Stratum: "", Quick: 500, Thorough: 15000, PerJob: 8},
		},
		QuickBudget: 45 * time.Second, ThoroughBudget: 20 * time.Minute,
		Rule: ruleRuns + "; stratum 'clean' runs the same swarm without faults (there a run is non-trivial if it completed); scenario 'core' drives two raw KCP cores (stream and message mode, fragmented messages up to and including exactly 256 fragments, both ways of driving the core) over the same fault model on one goroutine, with the byte-position oracle and message boundaries; scenario 'sess-mtu' applies SetMtu and SetStreamMode at seeded points in mid-transfer, with data queued and in flight",
		Real: append(append([]string{}, realSession...), "raw KCP cores (scenario core)"), Stub: stubSession, Assumptions: assumeCommon,
		WantProbes: []string{"drop", "duplicate", "reorder-delay", "retransmission-on-wire", "fec-parity-verified"},
		nontrivial: func(r *proto.RunResult, nf int) bool { return r.Progress && (nf > 0 || r.Stratum == "clean") },
	}
	plans["C15"] = &propPlan{
		Level: "exploration",
		Items: []planItem{
			{Scenario: "xfer", Stratum: "close", Quick: 700, Thorough: 25000},
			{Scenario: "peers", Stratum: "listener-close", Quick: 300, Thorough: 10000, PerJob: 8},
			{Scenario: "xfer", Stratum: "close-yield", Quick: 600, Thorough: 20000, PerJob: 8},
			{Scenario: "fec-fuzz", Stratum: "", Quick: 400, Thorough: 15000, PerJob: 16},
			{Scenario: "forge-sess", Stratum: "", Quick: 200, Thorough: 6000, PerJob: 8},
			{Scenario: "xfer", Stratum: "", Quick: 350, Thorough: 8000},
		},
		QuickBudget: 50 * time.Second, ThoroughBudget: 20 * time.Minute,
		Rule: "one evaluation = one seeded simulated run ending in a full teardown (sessions, listener, transports closed in a seeded order; stratum 'close' additionally closes a seeded subset at a seeded instant in mid-transfer), followed by a 12 s grace period, one further hour of virtual time and a census of the bubble's goroutines; every pooled buffer of the run goes through the sanitizer (ownership, poison, quarantine). Stratum 'listener-close' parks the listener's receive goroutine at a yield point between its closed-test, the registration of a new peer's session and the hand-over to the accept backlog, lets the application close the listener there and releases it afterwards. Stratum 'close-yield' holds one library goroutine (read loop holding a datagram, post-processing about to transmit, a scheduled update about to run, a Read/Write about to block, or Close itself right after marking the session dead) at a yield point across the scripted Closes and releases it a seeded time later. Scenarios fec-fuzz and forge-sess put the FEC decoder and whole sessions under forged and damaged input with the same buffer sanitizer. A run is non-trivial if payload reached a reader and either a fault fired or a mid-transfer Close was performed; distinct = distinct event-log hashes among those",
		Real: realSession, Stub: stubSession, Assumptions: append([]string{"a buffer that is never recycled is not reported (the property forbids double recycling and use after recycling, not garbage)", "read-after-recycle is detected only when the poisoned bytes reach the wire decoder or a reader"}, assumeCommon...),
		WantProbes: []string{"close-midway", "drop", "duplicate"},
		nontrivial: func(r *proto.RunResult, nf int) bool { return r.Progress && nf > 0 },
	}
	plans["C02"] = &propPlan{
		Level: "exploration",
		Items: []planItem{
			{Scenario: "core-enum", Stratum: "", Quick: 48, Thorough: 400, PerJob: 2},
			{Scenario: "core", Stratum: "heal", Quick: 4000, Thorough: 60000, PerJob: 16},
			{Scenario: "xfer", Stratum: "heal", Quick: 1200, Thorough: 15000, PerJob: 8},
			{Scenario: "xfer", Stratum: "", Quick: 600, Thorough: 20000, PerJob: 8},
			{Scenario: "xfer", Stratum: "stall", Quick: 300, Thorough: 8000, PerJob: 4},
		},
		QuickBudget: 60 * time.Second, ThoroughBudget: 25 * time.Minute, CountCases: false,
		Rule: "evaluations = seeded simulated runs. 'core-enum': one run = one drawn configuration of two raw cores x ALL 4^K assignments of {deliver, drop, duplicate, deliver-late} to the first K datagrams (K=4 quick, K=6 thorough; both directions, emission order), each followed by a fair network - enumerated_cases counts them. 'core/heal' and 'xfer/heal': seeded faults and, in half of the runs, a total outage (up to 10 virtual minutes) until a seeded instant, then a fair network; the writers stop when the network heals, and everything written must be read and both backlogs must be zero within an analytic budget (120 s probe back-off + (max retransmission count + 2) x 60 s + a stop-and-wait allowance per queued segment). Non-trivial = at least one fault fired and payload reached a reader; distinct = distinct event-log hashes among those; in every session-level run (strata '' and 'stall' are run for this purpose too) the always-on invariant O-silence applies: a session that holds unsent data and has nothing unacknowledged in flight, or whose peer's window stands at zero, hands something to the transport at least every 150 s of virtual time (new data at its next flush; zero-window probe interval at most 120 s), whatever the network does with it",
		Real: append([]string{"both ways of driving the core: session-style flush with the returned interval, and the public Update/Check loop"}, realSession...), Stub: stubSession,
		Assumptions: append([]string{"liveness is judged only after the last fault, with readers that keep reading", "the budget is an analytic over-approximation, not a tuned constant; a run that exceeds it is reported with the stuck state", "in message mode the generator keeps fragments per message <= the peer's receive window (the raw core accepts larger messages that can never be delivered; see DESIGN.md)"}, assumeCommon...),
		WantProbes:  []string{"drop", "duplicate", "deliver-late", "outage-drop", "retransmission-on-wire"},
	}
	plans["C04"] = &propPlan{
		Level: "exploration",
		Items: []planItem{
			{Scenario: "core", Stratum: "", Quick: 2500, Thorough: 120000, PerJob: 32},
			{Scenario: "core-forge", Stratum: "", Quick: 600, Thorough: 20000, PerJob: 16},
			{Scenario: "xfer", Stratum: "", Quick: 400, Thorough: 10000, PerJob: 8},
			{Scenario: "core", Stratum: "reopen", Quick: 40, Thorough: 400, PerJob: 8},
			{Scenario: "xfer", Stratum: "fec-window", Quick: 400, Thorough: 10000, PerJob: 8},
		},
		QuickBudget: 60 * time.Second, ThoroughBudget: 25 * time.Minute,
		Rule: "evaluations = seeded simulated runs; after EVERY harness event (API call or processed datagram) the oracle reads queue occupancies through hook H1 and compares them with the windows the harness configured, compares the wnd field of every emitted segment (independent decoder) with the free space of the delivery queue at the end of that step, and checks that new sequence numbers reach the wire only within min(send window, last window delivered to this endpoint, congestion window at the start of the step + growth); 'core-forge' = a scripted adversary that ignores the window and forges sn/una/wnd/ts/len. Non-trivial = fault fired (or forgery accepted) and progress; distinct = distinct event-log hashes",
		Real: realCore, Stub: stubCore,
		Assumptions: append([]string{"window sizes are set before traffic starts (accepted sessions are held to max(default 32, configured) because they live with the default until Accept returns)", "the congestion-window part of the admission bound reads cwnd through hook H1 (it is not visible on the wire) and allows the growth of at most 2 segments that processing one datagram's acknowledgements can cause", "finding recorded in known_findings.txt: a fast/early retransmission after a timeout loss re-opens the congestion window (cwnd = ssthresh + resend); counted as a probe here, reported by stratum core/reopen"}, assumeCommon...),
		WantProbes:  []string{"rcv-queue-full", "zero-window-advertised", "timeout-loss-counted", "forgery-accepted"},
		nontrivial:  func(r *proto.RunResult, nf int) bool { return r.Progress && nf > 0 },
	}
	plans["C05"] = &propPlan{
		Level: "exploration",
		Items: []planItem{
			{Scenario: "core-forge", Stratum: "", Quick: 1500, Thorough: 60000, PerJob: 16},
			{Scenario: "core", Stratum: "", Quick: 600, Thorough: 20000, PerJob: 32},
			{Scenario: "xfer", Stratum: "", Quick: 300, Thorough: 8000, PerJob: 8},
			{Scenario: "fec-fuzz", Stratum: "", Quick: 600, Thorough: 20000, PerJob: 16},
			{Scenario: "forge-sess", Stratum: "", Quick: 300, Thorough: 10000, PerJob: 8},
		},
		QuickBudget: 75 * time.Second, ThoroughBudget: 30 * time.Minute,
		Rule: "evaluations = seeded simulated runs, each feeding hundreds to thousands of generated datagrams (noise; truncations; structurally valid segments with every header field forged: cmd, frg, wnd, ts, sn, una around/outside/far from the windows and across the wrap, len lying about the remainder, lengths up to 64 KiB for the raw core) into a live core with outstanding data of its own; a library panic on any goroutine, occupancy beyond the C04 limits, or pooled buffers held beyond the windows is a violation. Scenario fec-fuzz does the same to the FEC decoder alone (noise, flipped types, forged and wrapping sequence ids, lying size fields, parity of unsent groups, forged-period runs that drive the auto-tuner; at most 16 shard sets and 16*256 packets may be held); scenario forge-sess opens genuine datagrams of a live session pair with the harness's cipher, edits one FEC or KCP header field and re-seals them correctly, so that the forgery passes the integrity gate of the real session / listener path. Non-trivial = at least one forgery was accepted by the core; distinct = distinct event-log hashes",
		Real: realCore, Stub: stubCore,
		Assumptions: append([]string{"this is datagram-content fault injection inside the simulation, as strong as its mutation grammar; it is not coverage-guided fuzzing", "'allocate without bound' is decided by counting pooled buffers held (sanitizer) and the pending-acknowledgement list against window-derived limits, not by measuring the Go heap"}, assumeCommon...),
		WantProbes:  []string{"forged-datagram", "forgery-accepted", "forgery-rejected", "rcv-queue-full"},
		nontrivial:  func(r *proto.RunResult, nf int) bool { return r.Progress },
	}
	plans["C09"] = &propPlan{
		Level: "exploration",
		Items: []planItem{
			{Scenario: "xfer", Stratum: "", Quick: 900, Thorough: 30000},
			{Scenario: "xfer", Stratum: "close", Quick: 200, Thorough: 5000},
			{Scenario: "xfer", Stratum: "wrap", Quick: 300, Thorough: 8000},
		},
		QuickBudget: 60 * time.Second, ThoroughBudget: 22 * time.Minute,
		Rule: "evaluations = seeded simulated runs; EVERY datagram handed to the simulated PacketConn in every run (first transmissions, retransmissions, ACK-only, probes, parity, after Close) is parsed by the independent decoder (README layout, crypto/cipher CFB / salsa20 / xor / AEAD, CRC32 over everything after the CRC field, FEC header, size field, 24-byte little-endian KCP headers filling the datagram exactly); FEC ids must advance by one (by parity count when parity is skipped) and agree with the type; parity must equal the Reed-Solomon code the harness computes with klauspost/reedsolomon over its own zero-padded copies; nonces and whole datagrams must never repeat; and the byte stream reassembled from the wire alone (by sn) must equal what was written. Non-trivial = fault fired and payload reached a reader; distinct = distinct event-log hashes",
		Real: realSession, Stub: stubSession,
		Assumptions: append([]string{"the fixed IV and the XOR salt are protocol constants copied into the decoder as data", "OOB packets are covered by the C19 scenario's runs of the same oracle"}, assumeCommon...),
		WantProbes:  []string{"fec-parity-verified", "fec-parity-skipped", "retransmission-on-wire", "emit-probe", "emit-ack"},
	}
	plans["C18"] = &propPlan{
		Level: "exploration",
		Items: []planItem{
			{Scenario: "core", Stratum: "clean", Quick: 2500, Thorough: 100000, PerJob: 32},
			{Scenario: "xfer", Stratum: "clean18", Quick: 500, Thorough: 15000, PerJob: 8},
			{Scenario: "core-forge", Stratum: "acks", Quick: 500, Thorough: 20000, PerJob: 16},
			{Scenario: "core", Stratum: "", Quick: 600, Thorough: 20000, PerJob: 32},
			{Scenario: "xfer", Stratum: "", Quick: 250, Thorough: 6000, PerJob: 8},
			{Scenario: "sess-mtu", Stratum: "", Quick: 400, Thorough: 10000, PerJob: 8},
		},
		QuickBudget: 60 * time.Second, ThoroughBudget: 25 * time.Minute,
		Rule: "evaluations = seeded simulated runs. Clean-path strata ('core/clean', 'xfer/clean18'): FIFO links with a constant one-way delay D drawn so that 2D + the peer's acknowledgement delay + 3 ms < the sender's minimum RTO, window precondition enforced, readers keep up; every data sn must appear exactly once per direction on the wire (independent decoder) and the library's retransmission counters must stay 0. Bound half: in EVERY run of every stratum (including 'core-forge/acks', an adversary acknowledging with forged, wrapped and delayed timestamps and long silences) the RTO is read after every step and must lie in [30 or 100 by configured mode, 60000]. Non-trivial = the run delivered payload (clean strata) or a fault/forgery fired; distinct = distinct event-log hashes",
		Real: append([]string{"both ways of driving the core"}, realSession...), Stub: stubSession,
		Assumptions: append([]string{"the 3 ms margin covers the two millisecond truncations of the core clock and the nanoseconds added by hook H3"}, assumeCommon...),
		WantProbes:  []string{"forgery-accepted"},
		nontrivial:  func(r *proto.RunResult, nf int) bool { return r.Progress },
	}
	plans["C10"] = &propPlan{
		Level: "exploration",
		Items: []planItem{
			{Scenario: "core-mtu", Stratum: "", Quick: 1200, Thorough: 50000, PerJob: 32},
			{Scenario: "core-mtu", Stratum: "initial", Quick: 400, Thorough: 10000, PerJob: 32},
			{Scenario: "sess-mtu", Stratum: "", Quick: 500, Thorough: 15000, PerJob: 8},
			{Scenario: "sess-mtu", Stratum: "initial", Quick: 250, Thorough: 6000, PerJob: 8},
			{Scenario: "sess-mtu", Stratum: "parity-straddle", Quick: 60, Thorough: 600, PerJob: 8},
			{Scenario: "sess-mtu", Stratum: "skip-shrink", Quick: 250, Thorough: 6000, PerJob: 8},
			{Scenario: "xfer", Stratum: "", Quick: 250, Thorough: 6000, PerJob: 8},
		},
		QuickBudget: 60 * time.Second, ThoroughBudget: 25 * time.Minute,
		Rule: "evaluations = seeded simulated runs. 'core-mtu': raw cores, KCP.SetMtu with any int (negative, 0, around the header size, 50..1500, above the packet-buffer size, huge) before traffic ('initial') or at seeded points during traffic with data queued and in flight; every size handed to the output callback must be in (0, MTU in force], a refused value leaves the previous MTU in force, and a library panic is a violation. 'sess-mtu': the same at session level under every cipher/FEC overhead combination, with OOB sent at GetOOBMaxSize(), +1 and -1; every datagram handed to the simulated PacketConn is measured against the MTU in force (datagrams already queued for post-processing at the moment of the call are still allowed the old MTU). A worker-process crash is attributed to its run through the journal. Non-trivial = at least one SetMtu was accepted in the run and payload was delivered; distinct = distinct event-log hashes",
		Real: realSession, Stub: stubSession,
		Assumptions: append([]string{"finding recorded in known_findings.txt: FEC parity of a group that straddles an MTU reduction exceeds the new MTU; stratum 'parity-straddle' provokes and reports it, the other strata count it as a probe and continue"}, assumeCommon...),
		WantProbes:  []string{"setmtu-accepted", "setmtu-refused", "setmtu-shrink-with-data-queued", "setmtu-accepted-above-buffer-size", "oob-sent-at-max"},
		nontrivial: func(r *proto.RunResult, nf int) bool {
			return r.Progress && (r.Probes["setmtu-accepted"] > 0 || r.Scenario == "xfer")
		},
	}
	plans["C07"] = &propPlan{
		Level: "fault_enumeration",
		Items: []planItem{
			// (d,p) with d+p <= 5 (quick: 10 pairs) / <= 6 (thorough: 15 pairs) x 5 size vectors x 3 placements x 3 duplicate modes
			{Scenario: "fec-enum", Stratum: "combo", Quick: 450, Thorough: 675, PerJob: 8, Combos: true},
			{Scenario: "fec-stream", Stratum: "", Quick: 1500, Thorough: 60000, PerJob: 32},
			{Scenario: "fec-stream", Stratum: "small", Quick: 800, Thorough: 30000, PerJob: 32},
			{Scenario: "xfer", Stratum: "fec", Quick: 250, Thorough: 8000, PerJob: 8},
			{Scenario: "xfer", Stratum: "fec-noparity", Quick: 150, Thorough: 4000, PerJob: 8},
			{Scenario: "xfer", Stratum: "fec-completing", Quick: 150, Thorough: 4000, PerJob: 8},
		},
		QuickBudget: 60 * time.Second, ThoroughBudget: 25 * time.Minute, CountCases: true,
		Rule: "fault_enumeration part ('fec-enum'): for EVERY (dataShards, parityShards) with d+p <= 5 (quick) / <= 6 (thorough), every one of 5 payload-size vectors (equal, increasing, one long, seeded random, mixed), 3 placements (first group, middle of the id space, last group before the id wrap value; with complete neighbour groups before and after) and 3 duplicate modes, ALL subsets of the group's packets that arrive x ALL arrival orders are fed to the real decoder (packets produced by the real encoder): enumerated_cases counts (subset, order) cases; at the first step where d distinct packets have arrived the decoder must return exactly the missing data packets, byte for byte with exact length, and nothing it ever returns may differ from an original data packet of that group followed by zero padding. Sampled part ('fec-stream', 'xfer/fec*'): streams of groups through seeded loss/duplication/reordering/sender pauses (parity skipping), (d,p) up to d+p=255, ids crossing 2^31 and the wrap value, and full sessions with parity-aware targeted loss (all parity dropped; one data packet of every other group dropped) decided by the stream oracle. evaluations = enumerated cases + sampled runs; distinct_nontrivial = distinct event-log hashes of runs in which a fault fired (or, for enumeration runs, all of them - each run is a distinct combination)",
		Real: []string{"fecEncoder and fecDecoder (fec.go) with klauspost/reedsolomon", "auto-tuner (autotune.go)", "buffer pool call sites (sanitizer via H4)", "in the xfer strata: the whole session stack"}, Stub: []string{"channel between encoder and decoder (seeded loss / duplication / bounded reordering)", "OS clock (testing/synctest fake clock; drives parity skipping)"},
		Assumptions: append([]string{"'still among the few most recent groups' is taken as: at most 2 groups behind the newest group seen (strictly inside the implementation's horizon, so the model does not mirror its constant)", "re-emitting a genuine data packet after duplicates or late parity refill a group is legal (the statement forbids only non-original output) and is counted as a probe"}, assumeCommon...),
		WantProbes:  []string{"fec-recovered", "fec-re-emission", "fec-id-wrap-crossed", "fec-parity-skipped", "parity-drop", "group-data-drop"},
		nontrivial:  func(r *proto.RunResult, nf int) bool { return r.Progress && (nf > 0 || r.Scenario == "fec-enum") },
		Exhaustive:  func(tier string) bool { return false },
	}
	plans["C16"] = &propPlan{
		Level: "exploration",
		Items: []planItem{
			{Scenario: "fec-stream", Stratum: "mismatch", Quick: 1200, Thorough: 50000, PerJob: 32},
			{Scenario: "fec-stream", Stratum: "mismatch-small", Quick: 1200, Thorough: 50000, PerJob: 32},
			{Scenario: "fec-stream", Stratum: "mismatch-targeted", Quick: 300, Thorough: 10000, PerJob: 32},
			{Scenario: "fec-stream", Stratum: "", Quick: 800, Thorough: 30000, PerJob: 32},
			{Scenario: "xfer", Stratum: "mismatch", Quick: 300, Thorough: 8000, PerJob: 8},
			{Scenario: "xfer", Stratum: "mismatch-targeted", Quick: 60, Thorough: 600, PerJob: 8},
			{Scenario: "xfer", Stratum: "mismatch-converge", Quick: 120, Thorough: 3000, PerJob: 8},
		},
		QuickBudget: 60 * time.Second, ThoroughBudget: 25 * time.Minute,
		Rule: "evaluations = seeded simulated runs. Codec level ('fec-stream'): sender ratio (d1,p1), receiver ratio (d2,p2) drawn small (1..4 each, 'mismatch-small') or up to d+p=255, any starting id (including ids >= 2^31 and runs crossing the wrap value) and phase, seeded loss/duplication/reordering/parity skipping before convergence, and the targeted pattern that drops exactly the packets whose type contradicts the receiver's expectation; after an uninterrupted run of 258+2(d1+p1) packets the decoder's effective ratio (hook H1) must be the sender's, from then on soundness and completeness of C07 are demanded and the ratio must stay; stratum '' runs matching ratios and demands that no pattern of genuine packets ever changes the ratio or suspends decoding. Session level ('xfer/mismatch*'): the two ends use different ratios (or FEC at one end only) under loss; the stream oracle decides 'delivers the stream intact'. Non-trivial = a fault fired and packets reached the decoder; distinct = distinct event-log hashes",
		Real: []string{"fecEncoder and fecDecoder (fec.go)", "auto-tuner (autotune.go)", "in the xfer strata: the whole session stack"}, Stub: []string{"channel between encoder and decoder", "OS clock (fake)"},
		Assumptions: append([]string{"at codec level, what a decoder returns while it still uses a ratio that is not the sender's is only counted (probe non-original-output-under-wrong-ratio): the property promises an intact stream, which the session-level strata decide", "finding recorded in known_findings.txt: under a ratio mismatch a parity packet that happens to be consistent with the receiver's own layout is decoded before the receiver can know better; the Reed-Solomon interpolation keeps the header bytes the combined packets share, passes KCP's checks and its payload is delivered as stream data. Strata xfer/mismatch and xfer/mismatch-targeted provoke and report it"}, assumeCommon...),
		WantProbes:  []string{"fec-converged", "fec-recovered", "targeted-drop", "non-original-output-under-wrong-ratio", "fec-recovery-under-wrong-ratio"},
		nontrivial:  func(r *proto.RunResult, nf int) bool { return r.Progress && nf > 0 },
	}
	plans["C12"] = &propPlan{
		Level: "exploration",
		Items: []planItem{
			{Scenario: "core-wrap", Stratum: "", Quick: 1500, Thorough: 60000, PerJob: 16},
			{Scenario: "xfer", Stratum: "wrap", Quick: 400, Thorough: 12000, PerJob: 8},
			{Scenario: "fec-stream", Stratum: "wrap", Quick: 800, Thorough: 30000, PerJob: 32},
		},
		QuickBudget: 60 * time.Second, ThoroughBudget: 25 * time.Minute,
		Rule: "evaluations = seeded simulated runs. 'core-wrap' (metamorphic): every run executes the same configuration, workload, fates and relative times twice in one bubble - baseline (sn 0, core clock 0) and shifted (first sn X and Y per direction, clock offset C ms; drawn so that 2^32 or 2^31 falls before, at the first, inside or at the last segment/millisecond, or uniformly at random) - and compares the complete normalised datagram traces (every segment's cmd, frg, wnd, ts-C, sn-X, una-Y, len, payload hash; emission times) and the delivered data event by event; Mode K is exactly deterministic, so any difference is a violation. 'xfer/wrap': full sessions whose cores, core clock and FEC encoders start just before their wrap points, decided by the stream and wire oracles. 'fec-stream/wrap': the codec stream oracle with starting ids around the wrap value and 2^31. Non-trivial = payload was delivered and (a fault fired or a boundary was crossed); distinct = distinct event-log hashes",
		Real: append([]string{"raw cores under both drivers (core-wrap)"}, realSession...), Stub: stubSession,
		Assumptions: append([]string{"sn and ts of WASK/WINS segments are not compared: they carry no sequence number or timestamp of their own (the fields hold what the previously encoded segment left there and receivers ignore them)", "the clock shift is a whole number of milliseconds so that both passes truncate at the same sub-millisecond phase"}, assumeCommon...),
		WantProbes:  []string{"sn-boundary-crossed", "clock-boundary-crossed", "fec-id-wrap-crossed", "fec-id-wrapped"},
		nontrivial: func(r *proto.RunResult, nf int) bool {
			return r.Progress && (nf > 0 || r.Probes["sn-boundary-crossed"]+r.Probes["clock-boundary-crossed"]+r.Probes["fec-id-wrap-crossed"]+r.Probes["fec-id-wrapped"] > 0)
		},
	}
	plans["C13"] = &propPlan{
		Level: "exploration",
		Items: []planItem{
			{Scenario: "block", Stratum: "", Quick: 6000, Thorough: 60000, PerJob: 8},
		},
		QuickBudget: 60 * time.Second, ThoroughBudget: 25 * time.Minute,
		Rule: "evaluations = seeded simulated runs: 1-3 reader goroutines blocked on one session, 1-3 writer goroutines on its peer (small send window, so they block), 0-2 acceptors on the listener; 4-44 stimuli per run at seeded virtual instants: data arrival, window opening, SetReadDeadline / SetWriteDeadline / SetDeadline with none / past / near / far values in every order (the fired transition kinds none->set, set->later, set->earlier, set->none, none->past ... are counted), session Close, transport read/write errors, listener deadline changes, new peers, listener Close / transport error. After every step a reference model of a blocking endpoint is evaluated at quiescence: (1) no call may still be pending when data is readable, the window has had room for more than one update interval, its deadline has been reached, the session/listener is closed or the socket has reported an error; (2) every return is legal at its return time (timeout never before the deadline in force, errors only with a cause, messages intact and read exactly once); (3) after Close: Write fails, Read drains then fails, second Close errors. Non-trivial = messages were read and at least 3 stimuli fired; distinct = distinct event-log hashes",
		Real: realSession, Stub: stubSession,
		Assumptions: append([]string{"at quiescence every goroutine of the bubble is durably blocked, so 'still pending although enabled' is a missed wake-up and not a matter of timing", "a writer waiting for window is allowed one update interval + 1 ms (the weakest reading of 'never left unclaimed' that still has teeth)", "after Close the kind of error Read/Write report is not constrained", "stimuli are placed at their own instants (unique sub-microsecond residues): a deadline expiring in the very instant it is changed is not explored"}, assumeCommon...),
		WantProbes:  []string{"read-deadline:none->set", "read-deadline:set->later", "read-deadline:set->earlier", "read-deadline:set->none", "write-deadline:none->set", "accept-deadline:none->set", "close", "transport-read-error", "transport-write-error", "listener-close", "Read-timeout", "Write-timeout", "accept-timeout", "drained-after-close"},
		nontrivial:  func(r *proto.RunResult, nf int) bool { return r.Progress && nf >= 3 },
	}
	plans["C03"] = &propPlan{
		Level: "exploration",
		Items: []planItem{
			{Scenario: "xfer", Stratum: "stall", Quick: 2000, Thorough: 20000, PerJob: 4},
		},
		QuickBudget: 70 * time.Second, ThoroughBudget: 25 * time.Minute,
		Rule: "evaluations = seeded simulated runs: the reading application stops at a seeded stream offset for a seeded time (1 ms .. 20 virtual minutes, so the window-probe back-off reaches its cap) while the writer keeps writing; receive window 1..64; with and without congestion control; every ACK-only / WASK / WINS datagram (chosen by the independent decoder) is lost during a seeded window covering the whole pause, its beginning, or the resumption. Oracles: stream prefix (nothing lost), receiver occupancy limits and sender backlog <= send window + one write while stalled, no previously unseen sn on the wire while the last window delivered to the sender is 0, and completion within an analytic budget after the reader has resumed and the targeted loss has ended. Non-trivial = the stall began, payload was delivered and a control datagram was dropped or a zero window was advertised; distinct = distinct event-log hashes",
		Real: realSession, Stub: stubSession,
		Assumptions: append([]string{"the completion budget is an analytic over-approximation (probe back-off cap, retransmission back-off, stop-and-wait allowance per segment)"}, assumeCommon...),
		WantProbes:  []string{"reader-stalled", "zero-window-advertised", "sender-sees-zero-window", "wask-emitted", "wins-emitted", "wask-lost", "wins-lost", "control-datagram-drop", "stall-completed"},
		nontrivial: func(r *proto.RunResult, nf int) bool {
			return r.Progress && r.Probes["reader-stalled"] > 0 && (r.Faults["control-datagram-drop"] > 0 || r.Probes["zero-window-advertised"] > 0)
		},
	}
	plans["C17"] = &propPlan{
		Level: "exploration",
		Items: []planItem{
			{Scenario: "sched", Stratum: "", Quick: 8000, Thorough: 80000, PerJob: 16},
		},
		QuickBudget: 60 * time.Second, ThoroughBudget: 25 * time.Minute,
		Rule: "evaluations = seeded simulated runs of the REAL TimedSched (1-8 workers, hook H3) with 1-6 submitter goroutines and 5-300 tasks: deadlines past / now / equal to or +-1 ns around the expiry of a queued task / near / far future (hours) / bursts, tasks that re-submit themselves, Close at a seeded point; yield points in Put, prepend and the workers are armed for seeded hit windows, and a goroutine parked there is released 0-3 ns of virtual time later in tape order, which orders 'timer fired' and 'task arrived' both ways. Oracle: every task submitted and due before Close runs exactly once, never before its deadline, and not later than max(deadline, submission) + 1 us + 4 ns per task (the cost of hook H3 and of the parking); after Close and settling nothing runs and no scheduler goroutine survives. Non-trivial = tasks ran and at least one special deadline kind or a parking fired; distinct = distinct event-log hashes",
		Real: []string{"TimedSched: Put, prepend goroutine, sched workers, timer handling (timedsched.go) with hook H3"}, Stub: []string{"OS clock and timers (testing/synctest fake clock)", "goroutine scheduling (serialised driver + parked yield points)"},
		Assumptions: append([]string{"asynctimerchan=1 is NOT covered: testing/synctest refuses to run with it, and there is no other fake clock for time.Timer (DESIGN.md section 9); the module's go directive makes asynctimerchan=0 the default", "tasks are instantaneous; a long-running task delaying others of the same worker is outside the statement"}, assumeCommon...),
		WantProbes:  []string{"deadline-past", "deadline-now", "deadline-equal", "deadline-around-queued", "deadline-far-future", "scheduler-closed", "parked:sched.put", "parked:sched.prepend", "parked:sched.task"},
		nontrivial:  func(r *proto.RunResult, nf int) bool { return r.Progress && nf > 0 },
	}
	plans["C19"] = &propPlan{
		Level: "exploration",
		Items: []planItem{
			{Scenario: "oob", Stratum: "", Quick: 900, Thorough: 30000, PerJob: 8},
			{Scenario: "oob", Stratum: "nofec", Quick: 150, Thorough: 3000, PerJob: 8},
			{Scenario: "peers", Stratum: "oob", Quick: 250, Thorough: 8000, PerJob: 4},
			{Scenario: "oob-successor", Stratum: "", Quick: 400, Thorough: 12000, PerJob: 8},
		},
		QuickBudget: 60 * time.Second, ThoroughBudget: 25 * time.Minute,
		Rule: "evaluations = seeded simulated runs: a bidirectional transfer with FEC on under the full fault swarm; 1-2 OOB sender actors interleave 5-200 SendOOB calls (payload = unique tag + keyed filler; lengths 0..8, GetOOBMaxSize()-3..GetOOBMaxSize(), +1, and uniform) with the Write traffic at seeded gaps; handlers registered, absent, or registered and replaced by nil, on either side. Oracle: every handler argument equals byte for byte a payload sent to THAT session and arrives at most as often as the network delivered copies of its datagram (counted at the fate decision); oversize and no-FEC calls return an error and put nothing on the wire; the stream, wire (FEC ids contiguous around OOB packets, parity verified) and pool oracles keep holding. 'peers/oob': several sessions on one listener, payloads tagged per session. Non-trivial = a handler was invoked, a fault fired and stream payload was delivered; distinct = distinct event-log hashes; scenario oob-successor closes two sessions on caller-owned PacketConns and creates successor sessions with a new conversation on the very same conns (the closed sessions' read loops are still parked there): the first datagrams after the Close are out-of-band messages, which may reach the successor's handler or be lost, never a closed session's handler",
		Real: realSession, Stub: stubSession,
		Assumptions: append([]string{"payloads shorter than 8 bytes cannot carry a tag: they are checked by content and by count per length"}, assumeCommon...),
		WantProbes:  []string{"oob-sent", "oob-sent-at-max", "oob-sent-empty", "oob-oversize-refused", "oob-refused-without-fec", "oob-handler-invoked", "oob-datagram-lost", "oob-datagram-duplicated"},
		nontrivial: func(r *proto.RunResult, nf int) bool {
			return r.Progress && nf > 0 && (r.Probes["oob-handler-invoked"] > 0 || r.Stratum == "nofec")
		},
	}
	plans["C11"] = &propPlan{
		Level: "exploration",
		Items: []planItem{
			{Scenario: "peers", Stratum: "", Quick: 600, Thorough: 25000, PerJob: 4},
			{Scenario: "peers", Stratum: "backlog", Quick: 6, Thorough: 200, PerJob: 1},
			{Scenario: "peers", Stratum: "oob", Quick: 150, Thorough: 5000, PerJob: 4},
			{Scenario: "peers", Stratum: "reconnect-fec", Quick: 150, Thorough: 1500, PerJob: 4},
			{Scenario: "peers", Stratum: "close-race", Quick: 300, Thorough: 8000, PerJob: 4},
			{Scenario: "xfer", Stratum: "", Quick: 150, Thorough: 4000, PerJob: 8},
		},
		QuickBudget: 80 * time.Second, ThoroughBudget: 28 * time.Minute, PerRunTimeout: 240 * time.Second,
		Rule: "evaluations = seeded simulated runs: one listener, 1-8 clients ('backlog': 120-160, beyond the accept backlog of 128) with distinct addresses, conversation ids and keyed payload streams, connecting at seeded instants; an acceptor that stalls for seeded periods; up to 120 injected datagrams per run: a datagram of peer X delivered as coming from peer Y, stale datagrams of a closed conversation, forged datagrams with another conversation id (first segment sn != 0) from a peer's own address, valid and random datagrams from unknown addresses, datagrams from foreign addresses to dialled sessions; clients that close and reconnect from the same address with a new conversation (after the old conversation's datagrams have left the network); all under loss, duplication and reordering. Oracle: every accepted session's stream is a prefix of the stream of exactly the peer at its RemoteAddr/GetConv; Accept never returns a wrong conversation, a second session for an open (address, conv), or a session from an address nothing was sent from; each conversation gets exactly one Accept by the end; no session's Read fails unless a side closed it or its peer started a new conversation. Non-trivial = payload delivered and (an injection or a fault fired); distinct = distinct event-log hashes",
		Real: realSession, Stub: stubSession,
		Assumptions: append([]string{"the injector only uses datagrams that must be ignored: the listener takes conv and sn from the first segment of a datagram, and a different conv with sn 0 there legitimately starts a new conversation (no handshake) - that case is exercised only as a genuine reconnect", "not demanded: that a client which keeps retransmitting after the server closed its session cannot cause a fresh Accept"}, assumeCommon...),
		WantProbes:  []string{"connect", "readdressed-datagram", "stale-datagram", "forged-other-conversation", "unknown-address-valid", "unknown-address-noise", "foreign-source-to-dialled", "reconnect-same-address", "acceptor-stall"},
		nontrivial:  func(r *proto.RunResult, nf int) bool { return r.Progress && nf > 0 },
	}
	plans["C06"] = &propPlan{
		Level: "exploration",
		Items: []planItem{
			{Scenario: "corrupt", Stratum: "", Quick: 500, Thorough: 20000, PerJob: 4},
		},
		QuickBudget: 70 * time.Second, ThoroughBudget: 25 * time.Minute,
		Rule: "evaluations = seeded simulated runs (every cipher except nil, FEC on and off, listener and dialled paths, the full fault swarm), each with 5-155 injections at seeded quiescent points: a genuine datagram captured from the traffic towards the target socket (data, parity, ACK-only, probes) is corrupted in a way the check is guaranteed to catch - AEAD: 1-4 bit flips anywhere, the tag altered, truncation; CRC ciphers: decrypted with the harness's own cipher, an error burst of 1..32 bits inside the CRC-covered bytes or an altered CRC field, re-encrypted - or a too-short / random datagram is built (the harness's decoder must agree that it fails; samples that pass by 2^-32 chance are discarded), claimed to come from the real peer or from an unknown address. Before and after the injection (no clock advance, quiescence in between) a reflection walk hashes every field of every session and of the listener per field path, and the SNMP counters are read: everything must be identical except InCsumErrors (+1 when the datagram is long enough to be checked); no datagram may be emitted, no call return, no session appear. Non-trivial = at least 3 corrupted datagrams were injected and payload was delivered; distinct = distinct event-log hashes",
		Real: realSession, Stub: stubSession,
		Assumptions: append([]string{"the snapshot skips channels, funcs, sync primitives, timers and the interfaces holding transport, cipher and codec objects (their internals are scratch or foreign); everything else reachable from a session or the listener is compared"}, assumeCommon...),
		WantProbes:  []string{"corrupted:data/burst", "corrupted:parity/burst", "corrupted:ack/burst", "corrupted:short", "corrupted:noise", "corrupted-datagrams-injected"},
		nontrivial: func(r *proto.RunResult, nf int) bool {
			return r.Progress && r.Probes["corrupted-datagrams-injected"] >= 3
		},
	}
	plans["C14"] = &propPlan{
		Level: "exploration", Race: true, NoDeterminism: true,
		Items: []planItem{
			{Scenario: "race", Stratum: "", Quick: 160, Thorough: 6000, PerJob: 1},
		},
		QuickBudget: 70 * time.Second, ThoroughBudget: 28 * time.Minute, PerRunTimeout: 300 * time.Second,
		Rule: "evaluations = seeded free-running runs (Mode R) of a binary built with -race at GOMAXPROCS=16: one listener, 1-3 dialled sessions sharing one cipher object, accepted sessions sharing the listener's; per session 4-8 goroutines loop over the supported public methods (Read, Write, WriteBuffers, Close, SetDeadline/SetReadDeadline/SetWriteDeadline, SetWindowSize, SetMtu, SetNoDelay, SetACKNoDelay, SetWriteDelay, SetRateLimit, SetOOBHandler, SendOOB, GetOOBMaxSize, GetConv, GetRTO/GetSRTT/GetSRTTVar, LocalAddr/RemoteAddr, SetReadBuffer/SetWriteBuffer/SetDSCP, Control, Snmp Copy/ToSlice) and 2 goroutines over the listener's (Accept, SetDeadline, Addr, SetReadBuffer/WriteBuffer/DSCP, Control) with traffic flowing under loss and duplication on the fake clock; every cipher / FEC configuration over the batch. The oracle is the Go race detector; reports are de-duplicated by the pair of first library frames. One race WITNESS is checked beside it, for shared state whose critical section ends in assembly the detector does not instrument (the entropy source): two datagrams of a run with different contents and the same nonce (probe nonces-compared counts the datagrams compared). The seed fixes workload, configuration and fault rates, NOT the interleaving. Non-trivial = segments were exchanged; distinct = distinct event-log hashes (the log holds the configuration line only)",
		Real: realSession, Stub: []string{"net.PacketConn (in-memory, free-running: per-datagram timers)", "OS clock (testing/synctest fake clock)", "nonce entropy (seeded, mutex-protected)"},
		Assumptions: []string{
			"weaker form of the technique: the interleaving is the Go runtime's, not the seed's; a violation's replay is 'same seed, same workload', and the reproduction rate is measured and written into the replay file rather than promised",
			"the detector is happens-before based: it flags an unsynchronised pair whenever both accesses execute in a run, largely independent of timing, but only for code the workload reaches",
			"the in-memory transport adds a happens-before edge from each sender's post-processing goroutine to the receiver's read loop (a real socket would not), which can hide races between DIFFERENT sessions on shared globals",
			"deprecated methods (SetStreamMode, SetDUP) and SetLogger are excluded, as the property says",
			"the pool sanitizer is off in this mode (its mutex would add happens-before edges)",
		},
		WantProbes: []string{"segments-in", "retransmitted", "fec-recovered", "oob-packets", "sessions"},
		nontrivial: func(r *proto.RunResult, nf int) bool { return r.Progress },
	}
}
