// Command check is the supervisor of the deterministic-simulation checks: it
// rebuilds the worker binary from /repo's working tree (build tag verif), fans
// seeded runs out over worker processes, re-runs a sample for reproducibility,
// minimises and replays violations, matches them against known_findings.txt
// and writes the evidence file.
//
//	check <property> quick|thorough
//	check --replay <file>
//	check selftest
//
// Exit status: 0 property held on everything explored (possibly with
// KNOWN-FINDING lines); 1 with "VIOLATION property=<id> replay=<path>";
// 2 harness trouble (build failure, watchdog, replay divergence).
package main

import (
	"bufio"
	"bytes"
	"crypto/sha256"
	"encoding/json"
	"fmt"
	"os"
	"os/exec"
	"path/filepath"
	"runtime"
	"sort"
	"strconv"
	"strings"
	"sync"
	"time"

	"verifsim/proto"
)

var (
	verifDir  = "/verif"
	repoDir   = "/repo"
	goBin     = "go1.26.8"
	workDir   string
	workerBin string
	raceBin   string
	nWorkers  = 16
)

func die2(format string, args ...any) {
	fmt.Fprintf(os.Stderr, "check: harness trouble: "+format+"\n", args...)
	cleanup()
	os.Exit(2)
}

func cleanup() {
	if workDir != "" {
		os.RemoveAll(workDir)
	}
}

func goEnv() []string {
	env := os.Environ()
	env = append(env, "GOFLAGS=-mod=mod", "GOPROXY=off", "GOSUMDB=off", "GOTOOLCHAIN=local", "CGO_ENABLED=1")
	return env
}

// buildWorker compiles the worker test binary against the current working tree
// of /repo (or VERIF_REPO for sensitivity runs on scratch copies).
func buildWorker(race bool) string {
	out := filepath.Join(workDir, "worker.test")
	args := []string{"test", "-tags", "verif", "-c", "-o", out}
	if race {
		out = filepath.Join(workDir, "worker.race.test")
		args = []string{"test", "-tags", "verif", "-race", "-c", "-o", out}
	}
	simDir := filepath.Join(verifDir, "sim")
	if alt := os.Getenv("VERIF_REPO"); alt != "" && alt != repoDir {
		gm, err := os.ReadFile(filepath.Join(simDir, "go.mod"))
		if err != nil {
			die2("read go.mod: %v", err)
		}
		gm = bytes.ReplaceAll(gm, []byte("=> /repo"), []byte("=> "+alt))
		mf := filepath.Join(workDir, "alt.mod")
		os.WriteFile(mf, gm, 0o644)
		gs, _ := os.ReadFile(filepath.Join(simDir, "go.sum"))
		os.WriteFile(filepath.Join(workDir, "alt.sum"), gs, 0o644)
		args = append(args, "-modfile="+mf)
		repoDir = alt
	}
	args = append(args, ".")
	cmd := exec.Command(goBin, args...)
	cmd.Dir = simDir
	cmd.Env = goEnv()
	var buf bytes.Buffer
	cmd.Stdout, cmd.Stderr = &buf, &buf
	if err := cmd.Run(); err != nil {
		die2("cannot build worker from %s with -tags verif: %v\n%s", repoDir, err, tail(buf.String(), 40))
	}
	return out
}

func tail(s string, n int) string {
	lines := strings.Split(strings.TrimRight(s, "\n"), "\n")
	if len(lines) > n {
		lines = lines[len(lines)-n:]
	}
	return strings.Join(lines, "\n")
}

func splitmix(x uint64) uint64 {
	x += 0x9E3779B97F4A7C15
	z := x
	z = (z ^ (z >> 30)) * 0xBF58476D1CE4E5B9
	z = (z ^ (z >> 27)) * 0x94D049BB133111EB
	return z ^ (z >> 31)
}

func hashStr(s string) uint64 {
	h := uint64(14695981039346656037)
	for i := 0; i < len(s); i++ {
		h ^= uint64(s[i])
		h *= 1099511628211
	}
	return h
}

// ---------------------------------------------------------------------------
// running jobs
// ---------------------------------------------------------------------------

type jobOutcome struct {
	stderr    string
	results   []proto.RunResult
	crashed   *proto.RunSpec // the run during which the process died
	crashText string
	mark      string // phase of the crashed run recorded last in the journal ("" = none)
	hang      bool   // the worker's own watchdog ended the run (HANG in the journal)
	leftover  []proto.RunSpec
	watchdog  bool
}

var runLimitS int   // real seconds per run before the worker declares a hang (set per plan)
var keepStderr bool // race mode: the detector's reports are on the worker's stderr
var jobSeq int
var jobSeqMu sync.Mutex

func runJob(bin string, specs []proto.RunSpec, timeout time.Duration, extraEnv ...string) jobOutcome {
	jobSeqMu.Lock()
	jobSeq++
	id := jobSeq
	jobSeqMu.Unlock()
	base := filepath.Join(workDir, fmt.Sprintf("job%06d", id))
	job := proto.Job{Specs: specs, Out: base + ".out", Journal: base + ".journal", RunLimitS: runLimitS}
	jb, _ := json.Marshal(job)
	os.WriteFile(base+".json", jb, 0o644)
	defer func() {
		os.Remove(base + ".json")
		os.Remove(base + ".out")
		os.Remove(base + ".journal")
		os.Remove(base + ".stderr")
	}()
	cmd := exec.Command(bin, "-test.run", "^TestWorker$", "-test.timeout", "0")
	cmd.Env = append(os.Environ(), "VERIF_JOB="+base+".json", "GOTRACEBACK=all", "GORACE=halt_on_error=0 exitcode=0 history_size=5")
	if keepStderr {
		cmd.Env = append(cmd.Env, "GOMAXPROCS=16")
	}
	cmd.Env = append(cmd.Env, extraEnv...)
	// the sandbox has no memory limit: keep each worker's heap in check
	cmd.Env = append(cmd.Env, "GOMEMLIMIT=3GiB")
	cmd.Dir = workDir
	errf, _ := os.Create(base + ".stderr")
	cmd.Stdout, cmd.Stderr = errf, errf
	var oc jobOutcome
	if err := cmd.Start(); err != nil {
		die2("cannot start worker: %v", err)
	}
	done := make(chan error, 1)
	go func() { done <- cmd.Wait() }()
	var werr error
	select {
	case werr = <-done:
	case <-time.After(timeout):
		cmd.Process.Kill()
		<-done
		oc.watchdog = true
	}
	errf.Close()
	if keepStderr {
		if st, err := os.ReadFile(base + ".stderr"); err == nil {
			oc.stderr = string(st)
		}
	}
	// results
	if f, err := os.Open(job.Out); err == nil {
		sc := bufio.NewScanner(f)
		sc.Buffer(make([]byte, 1<<20), 1<<28)
		for sc.Scan() {
			var r proto.RunResult
			if json.Unmarshal(sc.Bytes(), &r) == nil {
				oc.results = append(oc.results, r)
			}
		}
		f.Close()
	}
	// journal
	begun, ended, stopped := -1, -1, -1
	marks := map[string]string{}
	if jr, err := os.ReadFile(job.Journal); err == nil {
		for _, l := range strings.Split(string(jr), "\n") {
			f := strings.Fields(l)
			if len(f) == 3 && f[0] == "MARK" {
				marks[f[1]] = f[2]
				continue
			}
			if len(f) != 2 {
				continue
			}
			n, _ := strconv.Atoi(f[1])
			switch f[0] {
			case "HANG":
				oc.hang = true
			case "BEGIN":
				begun = n
			case "END":
				ended = n
			case "STOP":
				stopped = n
			}
		}
	}
	next := ended + 1
	if begun > ended {
		// died (or was killed) inside run 'begun'
		sp := specs[begun]
		oc.crashed = &sp
		st, _ := os.ReadFile(base + ".stderr")
		oc.crashText = string(st)
		if m := marks[strconv.Itoa(begun)]; m != "-" {
			oc.mark = m
		}
		next = begun + 1
	} else if werr != nil && stopped < 0 && !oc.watchdog && ended < len(specs)-1 {
		st, _ := os.ReadFile(base + ".stderr")
		die2("worker exited abnormally outside any run: %v\n%s", werr, tail(string(st), 30))
	}
	if next < len(specs) {
		oc.leftover = append(oc.leftover, specs[next:]...)
	}
	return oc
}

// crashViolation describes a worker-process crash inside a run. A crash inside a
// marked phase belongs to that phase's oracle; otherwise it is a "survive" crash,
// a violation only of the properties in crashProps.
func crashViolation(sp *proto.RunSpec, mark, text string) (*proto.Violation, string) {
	sig, detail := crashSignature(text)
	if i := strings.Index(mark, "/"); i > 0 {
		return &proto.Violation{Prop: sp.Prop, Oracle: mark[:i], Sig: sp.Prop + "/" + mark + ":" + sig, Detail: "worker process died inside the marked phase: " + detail}, sig
	}
	return &proto.Violation{Prop: sp.Prop, Oracle: "survive", Sig: sp.Prop + "/survive/crash:" + sig, Detail: "worker process died: " + detail}, sig
}

// crashSignature reduces a Go crash dump to "panic message class @ top library frame".
func crashSignature(text string) (sig, detail string) {
	lines := strings.Split(text, "\n")
	msg := ""
	idx := -1
	for i, l := range lines {
		if strings.HasPrefix(l, "panic: ") || strings.HasPrefix(l, "fatal error: ") {
			msg = l
			idx = i
			break
		}
	}
	if idx < 0 {
		return "no-panic-text", tail(text, 15)
	}
	frame := ""
	for _, l := range lines[idx:] {
		if strings.HasPrefix(l, "github.com/xtaci/kcp-go/v5.") {
			frame = l
			if i := strings.LastIndex(frame, "("); i > 0 {
				frame = frame[:i]
			}
			frame = strings.TrimPrefix(frame, "github.com/xtaci/kcp-go/v5.")
			break
		}
	}
	// normalise numbers
	var sb strings.Builder
	lastDigit := false
	for _, c := range msg {
		if c >= '0' && c <= '9' {
			if !lastDigit {
				sb.WriteByte('N')
			}
			lastDigit = true
			continue
		}
		lastDigit = false
		if c == ' ' {
			c = '_'
		}
		sb.WriteRune(c)
	}
	m := sb.String()
	if len(m) > 90 {
		m = m[:90]
	}
	end := idx + 25
	if end > len(lines) {
		end = len(lines)
	}
	return m + "@" + frame, strings.Join(lines[idx:end], " | ")
}

// raceReport is one report of the Go race detector.
type raceReport struct {
	sig   string
	text  string
	inLib bool
}

// parseRaces extracts the detector's reports from a worker's stderr and reduces
// each to the pair of first library frames of its two stacks.
func parseRaces(stderr string) []raceReport {
	var out []raceReport
	// race witnesses printed by the race scenario itself: effects that only an
	// unsynchronised use of shared state can produce, in code the detector does
	// not instrument (scen_race.go: identical nonces in different datagrams)
	for _, l := range strings.Split(stderr, "\n") {
		if rest, ok := strings.CutPrefix(l, "RACE-WITNESS: "); ok {
			sig, text, _ := strings.Cut(rest, " :: ")
			out = append(out, raceReport{sig: "witness:" + sig, text: text, inLib: true})
		}
	}
	blocks := strings.Split(stderr, "WARNING: DATA RACE")
	for _, b := range blocks[1:] {
		if i := strings.Index(b, "=================="); i >= 0 {
			b = b[:i]
		}
		// the two access stacks come first; goroutine creation stacks follow
		acc := b
		if i := strings.Index(acc, "\nGoroutine "); i >= 0 {
			acc = acc[:i]
		}
		var stacks [][]string
		var cur []string
		for _, l := range strings.Split(acc, "\n") {
			switch {
			case strings.HasPrefix(l, "Read at") || strings.HasPrefix(l, "Write at") || strings.HasPrefix(l, "Previous") || strings.HasPrefix(l, "Atomic"):
				if cur != nil {
					stacks = append(stacks, cur)
				}
				cur = []string{}
			case strings.HasPrefix(l, "  ") && !strings.HasPrefix(l, "      "):
				cur = append(cur, strings.TrimSpace(l))
			}
		}
		if cur != nil {
			stacks = append(stacks, cur)
		}
		var tops []string
		inLib := false
		for _, st := range stacks {
			top := ""
			for _, f := range st {
				if strings.Contains(f, "xtaci/kcp-go") {
					top = f
					inLib = true
					break
				}
			}
			if top == "" && len(st) > 0 {
				top = st[0]
			}
			top = strings.TrimPrefix(top, "github.com/xtaci/kcp-go/v5.")
			if i := strings.Index(top, "()"); i > 0 {
				top = top[:i]
			}
			tops = append(tops, top)
		}
		sort.Strings(tops)
		out = append(out, raceReport{sig: strings.Join(tops, "|"), text: tail(b, 60), inLib: inLib})
	}
	return out
}

func attachRaces(r *proto.RunResult, stderr string) {
	reps := parseRaces(stderr)
	if len(reps) == 0 {
		return
	}
	// one violation per run: the first library race (the others are listed in the detail)
	sigs := map[string]int{}
	var first *raceReport
	for i := range reps {
		if reps[i].inLib {
			sigs[reps[i].sig]++
			if first == nil {
				first = &reps[i]
			}
		}
	}
	if first == nil {
		r.Harness = "data race inside the harness: " + reps[0].sig + "\n" + reps[0].text
		return
	}
	var all []string
	for k, n := range sigs {
		all = append(all, fmt.Sprintf("%s x%d", k, n))
	}
	sort.Strings(all)
	r.Viol = &proto.Violation{Prop: r.Prop, Oracle: "race-detector", Sig: r.Prop + "/race/" + first.sig,
		Detail: fmt.Sprintf("%d report(s) of the Go race detector in this run: %s\n%s", len(reps), strings.Join(all, "; "), first.text)}
}

// hangProps are the properties whose statement a permanent standstill of the
// library violates (a deadlock is the extreme case of "never wakes", "never
// delivers", "is stalled by", "never terminates").
var hangProps = map[string]bool{"C02": true, "C03": true, "C11": true, "C13": true, "C15": true, "C19": true}

// hangSignature looks through a goroutine dump for goroutines blocked on a
// sync.Mutex / RWMutex inside the library and names the first library frame.
func hangSignature(text string) (sig, detail string) {
	var frames, hooks []string
	for _, g := range strings.Split(text, "\n\n") {
		lines := strings.Split(g, "\n")
		if len(lines) < 2 || !strings.HasPrefix(lines[0], "goroutine ") {
			continue
		}
		if !strings.Contains(lines[0], "Mutex.Lock") && !strings.Contains(lines[0], "RWMutex") && !strings.Contains(lines[0], "semacquire") {
			continue
		}
		for _, l := range lines[1:] {
			if strings.HasPrefix(l, "github.com/xtaci/kcp-go/v5.") {
				f := strings.TrimPrefix(l, "github.com/xtaci/kcp-go/v5.")
				if i := strings.LastIndex(f, "("); i > 0 {
					f = f[:i]
				}
				if strings.Contains(f, ".Verif") {
					hooks = append(hooks, f) // a harness hook waiting for the same mutex
					continue
				}
				frames = append(frames, f)
				break
			}
		}
	}
	if len(frames) == 0 && len(hooks) > 0 {
		// Only the harness's own state-reading hook waits: the mutex was left locked
		// by code that is no longer running (the harness takes it nowhere else and
		// never blocks while holding it).
		return "deadlock:library-mutex-never-released", fmt.Sprintf("the harness's state hook %s waits for ever for a mutex of the library that no running goroutine holds", hooks[0])
	}
	if len(frames) == 0 {
		return "", ""
	}
	sort.Strings(frames)
	uniq := frames[:1]
	for _, f := range frames[1:] {
		if f != uniq[len(uniq)-1] {
			uniq = append(uniq, f)
		}
	}
	return "deadlock:blocked-on-a-mutex@" + uniq[0], fmt.Sprintf("%d goroutine(s) of the library are blocked on a mutex: %s", len(frames), strings.Join(uniq, ", "))
}

// crashProps are the properties whose statement a process crash violates.
var crashProps = map[string]bool{"C02": true, "C05": true, "C10": true}

type pool struct {
	race          bool
	bin           string
	mu            sync.Mutex
	queue         [][]proto.RunSpec
	results       []proto.RunResult
	crashes       []proto.RunResult
	deadline      time.Time
	skipped       int
	watchdogs     []string
	killedOnce    map[string]bool // runs whose worker was killed from outside once already
	hangs         int             // runs ended by the worker's own watchdog with a library deadlock
	perRunTimeout time.Duration
}

func (p *pool) run() {
	var wg sync.WaitGroup
	for i := 0; i < nWorkers; i++ {
		wg.Add(1)
		go func() {
			defer wg.Done()
			for {
				p.mu.Lock()
				if len(p.queue) == 0 {
					p.mu.Unlock()
					return
				}
				if time.Now().After(p.deadline) {
					for _, j := range p.queue {
						p.skipped += len(j)
					}
					p.queue = nil
					p.mu.Unlock()
					return
				}
				specs := p.queue[0]
				p.queue = p.queue[1:]
				if p.hangs >= 4 {
					// every hang costs the full run limit: enough evidence, skip the rest
					p.skipped += len(specs)
					p.mu.Unlock()
					continue
				}
				p.mu.Unlock()
				to := p.perRunTimeout*time.Duration(len(specs)) + time.Duration(runLimitS)*time.Second + 30*time.Second
				oc := runJob(p.bin, specs, to)
				p.mu.Lock()
				if p.race && len(specs) == 1 && len(oc.results) == 1 {
					attachRaces(&oc.results[0], oc.stderr)
				}
				p.results = append(p.results, oc.results...)
				if p.race && oc.crashed != nil && !oc.watchdog && len(parseRaces(oc.crashText)) > 0 {
					// When the detector has reported a race, the testing package fails the
					// bubble's test and with it the worker's only test function: the
					// process ends inside the run. That is a completed run with a report,
					// not a crash.
					sp := oc.crashed
					rr := proto.RunResult{Prop: sp.Prop, Scenario: sp.Scenario, Stratum: sp.Stratum, Seed: sp.Seed, Progress: true}
					attachRaces(&rr, oc.crashText)
					p.results = append(p.results, rr)
					oc.crashed = nil
				}
				if oc.crashed != nil {
					if oc.watchdog {
						p.watchdogs = append(p.watchdogs, fmt.Sprintf("%s/%s seed=%d", oc.crashed.Scenario, oc.crashed.Stratum, oc.crashed.Seed))
					} else if oc.hang {
						// the worker's own watchdog: a run that never came back. With a goroutine
						// of the library blocked on a mutex this is a deadlock in the library;
						// otherwise it is harness trouble.
						sp := oc.crashed
						if hsig, hdet := hangSignature(oc.crashText); hsig != "" {
							p.hangs++
							p.crashes = append(p.crashes, proto.RunResult{Prop: sp.Prop, Scenario: sp.Scenario, Stratum: sp.Stratum, Seed: sp.Seed,
								Viol: &proto.Violation{Prop: sp.Prop, Oracle: "hang", Sig: sp.Prop + "/hang/" + hsig, Detail: "the run never came back (virtual time stopped); " + hdet}})
						} else {
							p.watchdogs = append(p.watchdogs, fmt.Sprintf("%s/%s seed=%d (run hung, no goroutine of the library blocked on a mutex)", sp.Scenario, sp.Stratum, sp.Seed))
						}
					} else if sig, _ := crashSignature(oc.crashText); sig == "no-panic-text" {
						// The worker died inside this run without any Go panic / fatal-error
						// text: it was killed from outside (out-of-memory killer, a signal).
						// That says nothing about the library. The run is repeated once in a
						// process of its own; a second death is harness trouble (exit 2),
						// never a violation.
						sp := *oc.crashed
						key := fmt.Sprintf("%s/%s/%d", sp.Scenario, sp.Stratum, sp.Seed)
						if p.killedOnce == nil {
							p.killedOnce = map[string]bool{}
						}
						if !p.killedOnce[key] {
							p.killedOnce[key] = true
							p.queue = append(p.queue, []proto.RunSpec{sp})
						} else {
							p.watchdogs = append(p.watchdogs, fmt.Sprintf("%s seed=%d: worker killed twice without a Go crash report (out of memory?)", key, sp.Seed))
						}
					} else {
						sp := oc.crashed
						v, _ := crashViolation(sp, oc.mark, oc.crashText)
						p.crashes = append(p.crashes, proto.RunResult{Prop: sp.Prop, Scenario: sp.Scenario, Stratum: sp.Stratum, Seed: sp.Seed, Viol: v})
					}
				} else if oc.watchdog {
					p.watchdogs = append(p.watchdogs, "worker killed outside a run")
				}
				if len(oc.leftover) > 0 {
					p.queue = append(p.queue, oc.leftover)
				}
				p.mu.Unlock()
			}
		}()
	}
	wg.Wait()
}

// runSingle executes one spec in a fresh process.
func runSingle(bin string, spec proto.RunSpec, timeout time.Duration) (res *proto.RunResult, crashSig string, watchdog bool) {
	oc := runJob(bin, []proto.RunSpec{spec}, timeout)
	if oc.crashed != nil {
		if oc.watchdog {
			return nil, "", true
		}
		if oc.hang {
			hsig, hdet := hangSignature(oc.crashText)
			if hsig == "" {
				return nil, "", true
			}
			return &proto.RunResult{Prop: spec.Prop, Scenario: spec.Scenario, Stratum: spec.Stratum, Seed: spec.Seed,
				Viol: &proto.Violation{Prop: spec.Prop, Oracle: "hang", Sig: spec.Prop + "/hang/" + hsig, Detail: "the run never came back (virtual time stopped); " + hdet}}, hsig, false
		}
		v, sig := crashViolation(&spec, oc.mark, oc.crashText)
		return &proto.RunResult{Prop: spec.Prop, Scenario: spec.Scenario, Stratum: spec.Stratum, Seed: spec.Seed, Viol: v}, sig, false
	}
	if len(oc.results) == 0 {
		return nil, "", oc.watchdog
	}
	return &oc.results[0], "", false
}

// ---------------------------------------------------------------------------
// minimisation
// ---------------------------------------------------------------------------

type minimiser struct {
	bin      string
	base     proto.RunSpec
	sig      string
	tape     map[string][]uint32
	tries    int
	maxTries int
	deadline time.Time
}

func cloneTape(t map[string][]uint32) map[string][]uint32 {
	c := map[string][]uint32{}
	for k, v := range t {
		c[k] = append([]uint32(nil), v...)
	}
	return c
}

func tapeSize(t map[string][]uint32) (n int) {
	for _, v := range t {
		for _, x := range v {
			if x != 0 {
				n++
			}
		}
		n += len(v)
	}
	return
}

func (m *minimiser) exhausted() bool { return m.tries >= m.maxTries || time.Now().After(m.deadline) }

// test runs candidates in parallel and reports which reproduce the signature.
func (m *minimiser) test(cands []map[string][]uint32) []bool {
	ok := make([]bool, len(cands))
	var wg sync.WaitGroup
	sem := make(chan struct{}, nWorkers)
	for i := range cands {
		if m.exhausted() {
			break
		}
		m.tries++
		wg.Add(1)
		sem <- struct{}{}
		go func(i int) {
			defer wg.Done()
			defer func() { <-sem }()
			sp := m.base
			sp.Replay = cands[i]
			sp.IsReplay = true
			res, _, _ := runSingle(m.bin, sp, 120*time.Second)
			ok[i] = res != nil && res.Viol != nil && res.Viol.Sig == m.sig
		}(i)
	}
	wg.Wait()
	return ok
}

func (m *minimiser) accept(cands []map[string][]uint32, ok []bool) bool {
	// take the successful candidate with the smallest tape
	best := -1
	for i := range cands {
		if ok[i] && (best < 0 || tapeSize(cands[i]) < tapeSize(cands[best])) {
			best = i
		}
	}
	if best < 0 {
		return false
	}
	m.tape = cands[best]
	return true
}

func (m *minimiser) run() {
	names := func() []string {
		var ns []string
		for k := range m.tape {
			ns = append(ns, k)
		}
		sort.Strings(ns)
		return ns
	}
	for pass := 0; pass < 6 && !m.exhausted(); pass++ {
		progress := false
		// A: drop whole streams / halve streams
		var cands []map[string][]uint32
		for _, k := range names() {
			if k == "cfg" {
				continue
			}
			c := cloneTape(m.tape)
			delete(c, k)
			cands = append(cands, c)
			if n := len(m.tape[k]); n > 1 {
				c2 := cloneTape(m.tape)
				c2[k] = c2[k][:n/2]
				cands = append(cands, c2)
			}
		}
		if len(cands) > 0 {
			ok := m.test(cands)
			// try to combine all successful whole-stream deletions
			comb := cloneTape(m.tape)
			nOK := 0
			for i, c := range cands {
				if ok[i] {
					for k := range m.tape {
						if _, still := c[k]; !still {
							delete(comb, k)
							nOK++
						}
					}
				}
			}
			if nOK > 1 {
				if r := m.test([]map[string][]uint32{comb}); len(r) > 0 && r[0] {
					m.tape = comb
					progress = true
				} else if m.accept(cands, ok) {
					progress = true
				}
			} else if m.accept(cands, ok) {
				progress = true
			}
		}
		// B: zero chunks of each stream
		for _, k := range names() {
			if m.exhausted() {
				break
			}
			n := len(m.tape[k])
			for size := n / 2; size >= 1 && !m.exhausted(); size /= 2 {
				var cs []map[string][]uint32
				for off := 0; off < n; off += size {
					allZero := true
					for i := off; i < off+size && i < n; i++ {
						if m.tape[k][i] != 0 {
							allZero = false
						}
					}
					if allZero {
						continue
					}
					c := cloneTape(m.tape)
					for i := off; i < off+size && i < len(c[k]); i++ {
						c[k][i] = 0
					}
					cs = append(cs, c)
					if len(cs) >= nWorkers {
						break
					}
				}
				if len(cs) == 0 {
					continue
				}
				ok := m.test(cs)
				if m.accept(cs, ok) {
					progress = true
				}
			}
		}
		// C: halve individual values
		for _, k := range names() {
			if m.exhausted() {
				break
			}
			var cs []map[string][]uint32
			for i, v := range m.tape[k] {
				if v > 1 {
					c := cloneTape(m.tape)
					c[k][i] = v / 2
					cs = append(cs, c)
					if len(cs) >= nWorkers {
						break
					}
				}
			}
			if len(cs) > 0 {
				ok := m.test(cs)
				if m.accept(cs, ok) {
					progress = true
				}
			}
		}
		if !progress {
			break
		}
	}
	// strip trailing zeros
	for k, v := range m.tape {
		n := len(v)
		for n > 0 && v[n-1] == 0 {
			n--
		}
		if n == 0 {
			delete(m.tape, k)
		} else {
			m.tape[k] = v[:n]
		}
	}
}

// ---------------------------------------------------------------------------
// replay files, known findings
// ---------------------------------------------------------------------------

type replayFile struct {
	Property      string              `json:"property"`
	Scenario      string              `json:"scenario"`
	Stratum       string              `json:"stratum,omitempty"`
	Tier          string              `json:"tier"`
	RunSeed       uint64              `json:"run_seed"`
	Tape          map[string][]uint32 `json:"tape"`
	Signature     string              `json:"signature"`
	Detail        string              `json:"detail"`
	LogHash       string              `json:"event_log_hash"`
	Config        string              `json:"config"`
	Log           []string            `json:"event_log"`
	Tree          string              `json:"tree"`
	Toolchain     string              `json:"toolchain"`
	Crash         bool                `json:"process_crash,omitempty"`
	MinimisedFrom int                 `json:"tape_entries_before_minimisation"`
	MinimisedTo   int                 `json:"tape_entries_after_minimisation"`
	Tries         int                 `json:"minimisation_runs"`
}

func treeID() string {
	head, _ := exec.Command("git", "-C", repoDir, "rev-parse", "--short", "HEAD").Output()
	diff, _ := exec.Command("git", "-C", repoDir, "diff", "HEAD").Output()
	sum := sha256.Sum256(diff)
	return fmt.Sprintf("%s+diff:%x", strings.TrimSpace(string(head)), sum[:6])
}

type finding struct {
	kind    string // "finding" or "fixed"
	prop    string
	sig     string // signature prefix to match
	stratum string
	text    string
}

func loadFindings() []finding {
	var fs []finding
	raw, err := os.ReadFile(filepath.Join(verifDir, "known_findings.txt"))
	if err != nil {
		return nil
	}
	for _, l := range strings.Split(string(raw), "\n") {
		l = strings.TrimSpace(l)
		if l == "" || strings.HasPrefix(l, "#") {
			continue
		}
		var f finding
		switch {
		case strings.HasPrefix(l, "finding:"):
			f.kind = "finding"
			l = strings.TrimSpace(strings.TrimPrefix(l, "finding:"))
		case strings.HasPrefix(l, "fixed:"):
			f.kind = "fixed"
			l = strings.TrimSpace(strings.TrimPrefix(l, "fixed:"))
		default:
			continue
		}
		rest := []string{}
		for _, tok := range strings.Fields(l) {
			switch {
			case strings.HasPrefix(tok, "property=") && f.prop == "":
				f.prop = strings.TrimPrefix(tok, "property=")
			case strings.HasPrefix(tok, "signature=") && f.sig == "":
				f.sig = strings.TrimPrefix(tok, "signature=")
			case strings.HasPrefix(tok, "stratum=") && f.stratum == "":
				f.stratum = strings.TrimPrefix(tok, "stratum=")
			default:
				rest = append(rest, tok)
			}
		}
		f.text = strings.Join(rest, " ")
		fs = append(fs, f)
	}
	return fs
}

func matchFinding(fs []finding, r *proto.RunResult) *finding {
	for i := range fs {
		f := &fs[i]
		if f.kind != "finding" || f.prop != r.Viol.Prop || f.sig == "" {
			continue
		}
		if f.stratum != "" && f.stratum != r.Stratum {
			continue
		}
		if strings.HasPrefix(r.Viol.Sig, f.sig) {
			return f
		}
	}
	return nil
}

// ---------------------------------------------------------------------------
// main
// ---------------------------------------------------------------------------

func main() {
	if v := os.Getenv("VERIF_DIR"); v != "" {
		verifDir = v
	}
	if v := os.Getenv("VERIF_JOBS"); v != "" {
		if n, err := strconv.Atoi(v); err == nil && n > 0 {
			nWorkers = n
		}
	} else if n := runtime.NumCPU(); n < nWorkers {
		nWorkers = n
	}
	args := os.Args[1:]
	if len(args) < 1 {
		fmt.Fprintln(os.Stderr, "usage: check <property> quick|thorough | --replay <file> | selftest")
		os.Exit(2)
	}
	os.MkdirAll(filepath.Join(verifDir, "bin"), 0o755)
	var err error
	workDir, err = os.MkdirTemp(filepath.Join(verifDir, "bin"), "run.")
	if err != nil {
		die2("%v", err)
	}
	switch {
	case args[0] == "--replay":
		if len(args) < 2 {
			die2("--replay needs a file")
		}
		code := doReplay(args[1])
		cleanup()
		os.Exit(code)
	case args[0] == "setup":
		// warm the build cache so that the first check does not pay for it
		buildWorker(false)
		buildWorker(true)
		fmt.Println("setup: supervisor and worker binaries build")
		cleanup()
		os.Exit(0)
	case args[0] == "selftest":
		code := doSelftest(args[1:])
		cleanup()
		os.Exit(code)
	default:
		tier := "quick"
		if len(args) > 1 {
			tier = args[1]
		}
		if t := os.Getenv("VERIF_TIER"); t != "" && len(args) < 2 {
			tier = t
		}
		code := doCheck(args[0], tier)
		cleanup()
		os.Exit(code)
	}
}

func envSeed() int64 {
	if v := os.Getenv("VERIF_SEED"); v != "" {
		if n, err := strconv.ParseInt(v, 10, 64); err == nil {
			return n
		}
		return int64(hashStr(v) >> 1)
	}
	return 1
}

func doReplay(path string) int {
	raw, err := os.ReadFile(path)
	if err != nil {
		die2("%v", err)
	}
	var rf replayFile
	if err := json.Unmarshal(raw, &rf); err != nil {
		die2("%s: %v", path, err)
	}
	plan := plans[rf.Property]
	bin := buildWorker(plan != nil && plan.Race)
	spec := proto.RunSpec{Prop: rf.Property, Scenario: rf.Scenario, Stratum: rf.Stratum, Seed: rf.RunSeed, Tier: rf.Tier, Replay: rf.Tape, IsReplay: true, WantLog: true}
	if spec.Replay == nil {
		spec.Replay = map[string][]uint32{}
	}
	res, _, wd := runSingle(bin, spec, 10*time.Minute)
	if wd || res == nil {
		die2("replay run did not finish")
	}
	if res.Harness != "" {
		die2("replay: %s", res.Harness)
	}
	if res.Viol == nil {
		fmt.Printf("replay of %s: no violation on this tree (recorded: %s)\n", path, rf.Signature)
		return 0
	}
	fmt.Printf("replay of %s: %s\n  %s\n", path, res.Viol.Sig, res.Viol.Detail)
	if res.Viol.Sig != rf.Signature {
		fmt.Printf("  note: recorded signature was %s\n", rf.Signature)
	}
	if !rf.Crash && rf.LogHash != "" && res.LogHash != rf.LogHash && res.Viol.Sig == rf.Signature && rf.Tree == treeID() {
		fmt.Fprintf(os.Stderr, "check: replay diverged: event-log hash %s, recorded %s\n", res.LogHash, rf.LogHash)
		return 2
	}
	for _, l := range res.Log {
		fmt.Println("   ", l)
	}
	fmt.Printf("VIOLATION property=%s replay=%s\n", rf.Property, path)
	return 1
}

func doCheck(prop, tier string) int {
	t0 := time.Now()
	plan := plans[prop]
	if plan == nil {
		die2("no check registered for property %q", prop)
	}
	if tier != "quick" && tier != "thorough" {
		die2("unknown tier %q", tier)
	}
	seed := envSeed()
	fmt.Printf("check %s %s: VERIF_SEED=%d workers=%d\n", prop, tier, seed, nWorkers)
	bin := buildWorker(plan.Race)
	fmt.Printf("  worker built from %s in %.1fs (tree %s)\n", repoDir, time.Since(t0).Seconds(), treeID())

	// plan the runs
	var specs []proto.RunSpec
	perJob := 8
	for _, it := range plan.Items {
		n := it.Quick
		if tier == "thorough" {
			n = it.Thorough
		}
		if it.PerJob > 0 {
			perJob = it.PerJob
		}
		for i := 0; i < n; i++ {
			rs := splitmix(uint64(seed)*0x9E3779B97F4A7C15 ^ hashStr(prop+"/"+it.Scenario+"/"+it.Stratum) ^ uint64(i)*0xD1B54A32D192ED03)
			st := it.Stratum
			if it.Combos {
				st = fmt.Sprintf("%s:%d", it.Stratum, i)
			}
			specs = append(specs, proto.RunSpec{Prop: prop, Scenario: it.Scenario, Stratum: st, Seed: rs >> 1, Tier: tier})
		}
	}
	// interleave strata so that a wall-clock cap cuts all of them evenly
	sort.SliceStable(specs, func(i, j int) bool { return splitmix(specs[i].Seed) < splitmix(specs[j].Seed) })
	p := &pool{bin: bin, perRunTimeout: plan.PerRunTimeout, race: plan.Race}
	keepStderr = plan.Race
	if plan.Race {
		perJob = 1 // one run per process, so that every report belongs to its run
	}
	if p.perRunTimeout == 0 {
		p.perRunTimeout = 60 * time.Second
	}
	// generous: a legitimate run on a loaded machine must never be mistaken for a
	// hang (the supervisor's per-job watchdog stays as the outer limit)
	runLimitS = max(3*int(p.perRunTimeout/time.Second), 240)
	if plan.Race {
		runLimitS = 0 // free-running mode has the supervisor's watchdog only
	}
	budget := plan.QuickBudget
	if tier == "thorough" {
		budget = plan.ThoroughBudget
	}
	if v := os.Getenv("VERIF_BUDGET_S"); v != "" {
		if n, err := strconv.Atoi(v); err == nil {
			budget = time.Duration(n) * time.Second
		}
	}
	p.deadline = time.Now().Add(budget)
	for i := 0; i < len(specs); i += perJob {
		j := i + perJob
		if j > len(specs) {
			j = len(specs)
		}
		p.queue = append(p.queue, specs[i:j])
	}
	p.run()
	results := append(p.results, p.crashes...)
	runWall := time.Since(t0)

	// classify
	var viols, harness []proto.RunResult
	for _, r := range results {
		switch {
		case r.Viol != nil:
			viols = append(viols, r)
		case r.Harness != "":
			harness = append(harness, r)
		}
	}
	for i := range p.crashes {
		r := &p.crashes[i]
		if r.Viol.Oracle == "hang" && !hangProps[prop] {
			harness = append(harness, proto.RunResult{Prop: prop, Scenario: r.Scenario, Stratum: r.Stratum, Seed: r.Seed, Harness: "the library deadlocked during the run (undecidable for this property): " + r.Viol.Sig})
		}
		if !crashProps[prop] && r.Viol.Oracle == "survive" {
			// a crash is not a violation of this property's statement; it is
			// reported by C05 (and C10/C02). Here the run cannot be decided.
			harness = append(harness, proto.RunResult{Prop: prop, Scenario: r.Scenario, Stratum: r.Stratum, Seed: r.Seed, Harness: "library crashed during the run (undecidable here; see C05): " + r.Viol.Sig})
		}
	}
	if !crashProps[prop] {
		kept := viols[:0]
		for _, v := range viols {
			if v.Viol.Oracle == "survive" && strings.Contains(v.Viol.Sig, "/survive/crash:") {
				continue
			}
			kept = append(kept, v)
		}
		viols = kept
	}
	if !hangProps[prop] {
		kept := viols[:0]
		for _, v := range viols {
			if v.Viol.Oracle != "hang" {
				kept = append(kept, v)
			}
		}
		viols = kept
	}
	sort.SliceStable(viols, func(i, j int) bool { return viols[i].Seed < viols[j].Seed })

	// reproducibility sample: re-run ~1% in fresh processes, compare event-log hashes
	reruns, diverged := 0, 0
	var divergedDesc []string
	if !plan.NoDeterminism {
		var cand []proto.RunResult
		for _, r := range results {
			if r.Viol == nil && r.Harness == "" && r.LogHash != "" {
				cand = append(cand, r)
			}
		}
		sort.SliceStable(cand, func(i, j int) bool { return splitmix(cand[i].Seed^7) < splitmix(cand[j].Seed^7) })
		n := len(cand) / 100
		if n < 3 {
			n = 3
		}
		if n > 24 {
			n = 24
		}
		if n > len(cand) {
			n = len(cand)
		}
		var wg sync.WaitGroup
		var mu sync.Mutex
		sem := make(chan struct{}, nWorkers)
		for _, c := range cand[:n] {
			wg.Add(1)
			sem <- struct{}{}
			go func(c proto.RunResult) {
				defer wg.Done()
				defer func() { <-sem }()
				sp := proto.RunSpec{Prop: prop, Scenario: c.Scenario, Stratum: c.Stratum, Seed: c.Seed, Tier: tier}
				res, _, _ := runSingle(bin, sp, 5*time.Minute)
				mu.Lock()
				reruns++
				if res == nil || res.LogHash != c.LogHash {
					diverged++
					divergedDesc = append(divergedDesc, fmt.Sprintf("%s/%s seed=%d", c.Scenario, c.Stratum, c.Seed))
				}
				mu.Unlock()
			}(c)
		}
		wg.Wait()
	}

	// violations: one per signature, minimised and replayed
	findings := loadFindings()
	type reported struct {
		res   proto.RunResult
		path  string
		known *finding
		count int
	}
	bySig := map[string]*reported{}
	var order []string
	for _, v := range viols {
		key := v.Viol.Sig + "|" + v.Stratum
		if rp, ok := bySig[key]; ok {
			rp.count++
			continue
		}
		bySig[key] = &reported{res: v, count: 1}
		order = append(order, key)
	}
	os.MkdirAll(filepath.Join(verifDir, "replays"), 0o755)
	minimisations := 0
	for i, key := range order {
		rp := bySig[key]
		v := rp.res
		rp.known = matchFinding(findings, &v)
		isCrash := strings.Contains(v.Viol.Sig, "/survive/crash:") || strings.Contains(v.Viol.Sig, "/hang/")
		// obtain the tape: crashes have none recorded (the process died), so the
		// replay is by seed
		tapeRec := v.Tape
		rf := replayFile{Property: prop, Scenario: v.Scenario, Stratum: v.Stratum, Tier: tier, RunSeed: v.Seed, Signature: v.Viol.Sig, Detail: v.Viol.Detail,
			LogHash: v.LogHash, Config: v.Config, Log: v.Log, Tree: treeID(), Toolchain: goBin, Crash: isCrash}
		if tapeRec != nil && i < 4 && rp.known == nil {
			m := &minimiser{bin: bin, base: proto.RunSpec{Prop: prop, Scenario: v.Scenario, Stratum: v.Stratum, Seed: v.Seed, Tier: tier}, sig: v.Viol.Sig,
				tape: cloneTape(tapeRec), maxTries: 400, deadline: time.Now().Add(plan.MinimiseBudget(tier))}
			rf.MinimisedFrom = tapeSize(tapeRec)
			m.run()
			minimisations++
			rf.Tries = m.tries
			tapeRec = m.tape
			rf.MinimisedTo = tapeSize(tapeRec)
		}
		if tapeRec != nil {
			// final replay in a fresh process: must reproduce the signature
			sp := proto.RunSpec{Prop: prop, Scenario: v.Scenario, Stratum: v.Stratum, Seed: v.Seed, Tier: tier, Replay: tapeRec, IsReplay: true, WantLog: true}
			res, _, _ := runSingle(bin, sp, 5*time.Minute)
			if res == nil || res.Viol == nil || res.Viol.Sig != v.Viol.Sig {
				// fall back to the unminimised tape
				sp.Replay = v.Tape
				res, _, _ = runSingle(bin, sp, 5*time.Minute)
				tapeRec = v.Tape
				if res == nil || res.Viol == nil || res.Viol.Sig != v.Viol.Sig {
					die2("violation %s of seed %d does not replay from its tape", v.Viol.Sig, v.Seed)
				}
			}
			rf.Tape, rf.LogHash, rf.Log, rf.Detail, rf.Config = tapeRec, res.LogHash, res.Log, res.Viol.Detail, res.Config
		} else if plan.Race {
			// race mode: the seed fixes the workload, not the interleaving; measure how
			// often the same report comes back
			again := 0
			const tries = 5
			for k := 0; k < tries; k++ {
				oc := runJob(bin, []proto.RunSpec{{Prop: prop, Scenario: v.Scenario, Stratum: v.Stratum, Seed: v.Seed, Tier: tier}}, 10*time.Minute)
				for _, rr := range parseRaces(oc.stderr) {
					if prop+"/race/"+rr.sig == v.Viol.Sig {
						again++
						break
					}
				}
			}
			rf.Detail = fmt.Sprintf("%s\n[re-running the same seed reproduced this report in %d of %d runs]", v.Viol.Detail, again, tries)
		} else {
			// crash: confirm that the seed crashes again the same way
			sp := proto.RunSpec{Prop: prop, Scenario: v.Scenario, Stratum: v.Stratum, Seed: v.Seed, Tier: tier}
			res, _, _ := runSingle(bin, sp, 5*time.Minute)
			if res == nil || res.Viol == nil || res.Viol.Sig != v.Viol.Sig {
				die2("crash %s of seed %d does not reproduce", v.Viol.Sig, v.Seed)
			}
		}
		name := fmt.Sprintf("%s-%s-%016x.json", prop, sanitize(v.Viol.Sig), v.Seed)
		if rp.known != nil {
			name = fmt.Sprintf("known-%s", name)
		}
		rp.path = filepath.Join(verifDir, "replays", name)
		b, _ := json.MarshalIndent(rf, "", " ")
		os.WriteFile(rp.path, b, 0o644)
	}

	// evidence
	ev := buildEvidence(prop, tier, seed, plan, results, p, reruns, diverged, minimisations, len(viols), time.Since(t0), runWall)
	evDir := filepath.Join(verifDir, "evidence")
	if os.Getenv("VERIF_REPO") != "" {
		// a run against another tree (a seeded change) must not replace the
		// evidence of the runs against /repo
		evDir = filepath.Join(verifDir, "bin", "evidence-other-tree")
	}
	os.MkdirAll(evDir, 0o755)
	eb, _ := json.MarshalIndent(ev, "", " ")
	if err := os.WriteFile(filepath.Join(evDir, prop+".json"), eb, 0o644); err != nil {
		die2("write evidence: %v", err)
	}
	if tier == "thorough" && os.Getenv("VERIF_REPO") == "" {
		// the last thorough run's record is also kept aside: evidence/<id>.json is
		// rewritten by every run, including the quick ones
		os.MkdirAll(filepath.Join(verifDir, "evidence", "thorough"), 0o755)
		os.WriteFile(filepath.Join(verifDir, "evidence", "thorough", prop+".json"), eb, 0o644)
	}

	// verdict
	unknownViol := 0
	for _, key := range order {
		rp := bySig[key]
		if rp.known != nil {
			fmt.Printf("KNOWN-FINDING: property=%s %s [%s, %d run(s), replay %s]\n", prop, rp.known.text, rp.res.Viol.Sig, rp.count, rp.path)
			continue
		}
		unknownViol++
		fmt.Printf("  %s (%d run(s)) seed=%d: %s\n", rp.res.Viol.Sig, rp.count, rp.res.Seed, rp.res.Viol.Detail)
		fmt.Printf("VIOLATION property=%s replay=%s\n", prop, rp.path)
	}
	fmt.Printf("  %d runs (%d skipped by the wall-clock cap), %d violations, %d harness errors, reproducibility re-runs %d diverged %d, %.1fs\n",
		len(results), p.skipped, len(viols), len(harness), reruns, diverged, time.Since(t0).Seconds())
	if unknownViol > 0 {
		return 1
	}
	if len(p.watchdogs) > 0 {
		fmt.Fprintf(os.Stderr, "check: harness trouble: watchdog killed worker(s): %v\n", p.watchdogs)
		return 2
	}
	if len(harness) > 0 {
		for i, h := range harness {
			if i < 5 {
				fmt.Fprintf(os.Stderr, "check: harness trouble: %s/%s seed=%d: %s\n", h.Scenario, h.Stratum, h.Seed, h.Harness)
			}
		}
		return 2
	}
	if diverged > 0 {
		fmt.Fprintf(os.Stderr, "check: harness trouble: %d of %d re-executed runs did not reproduce their event-log hash: %v\n", diverged, reruns, divergedDesc)
		return 2
	}
	if len(results) == 0 {
		fmt.Fprintln(os.Stderr, "check: harness trouble: no run was executed")
		return 2
	}
	// findings listed but not met in this run are worth a note (not an error)
	for _, f := range findings {
		if f.kind == "finding" && f.prop == prop {
			met := false
			for _, key := range order {
				if bySig[key].known != nil && bySig[key].known.sig == f.sig {
					met = true
				}
			}
			if !met {
				fmt.Printf("  note: listed finding %q was not met in this run\n", f.sig)
			}
		}
	}
	fmt.Printf("OK property=%s tier=%s\n", prop, tier)
	return 0
}

func sanitize(s string) string {
	var sb strings.Builder
	for _, c := range s {
		switch {
		case c >= 'a' && c <= 'z', c >= 'A' && c <= 'Z', c >= '0' && c <= '9', c == '-', c == '_':
			sb.WriteRune(c)
		default:
			sb.WriteByte('_')
		}
	}
	out := sb.String()
	if len(out) > 80 {
		out = out[:80]
	}
	return out
}
