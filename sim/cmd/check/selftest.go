package main

import (
	"fmt"
	"sort"
	"strconv"
	"sync"
	"time"

	"verifsim/proto"
)

// doSelftest is the determinism self-test (DESIGN 10.1): every scenario family
// of every registered plan is run for N seeds, each seed in R fresh processes
// spread over GOMAXPROCS 1, 4 and 16, and the complete event-log hashes are
// compared. args: [seeds-per-family [processes-per-seed [property...]]]
func doSelftest(args []string) int {
	nSeeds, nProcs := 40, 6
	if len(args) > 0 {
		nSeeds, _ = strconv.Atoi(args[0])
	}
	if len(args) > 1 {
		nProcs, _ = strconv.Atoi(args[1])
	}
	only := map[string]bool{}
	for _, a := range args[min(2, len(args)):] {
		only[a] = true
	}
	bin := buildWorker(false)
	var props []string
	for p := range plans {
		props = append(props, p)
	}
	sort.Strings(props)
	gmp := []string{"1", "4", "16"}
	total, bad := 0, 0
	t0 := time.Now()
	for _, prop := range props {
		plan := plans[prop]
		if plan.Race || plan.NoDeterminism || (len(only) > 0 && !only[prop]) {
			continue
		}
		for _, it := range plan.Items {
			var specs []proto.RunSpec
			for i := 0; i < nSeeds; i++ {
				rs := splitmix(0x5e1f7e57 ^ hashStr(prop+"/"+it.Scenario+"/"+it.Stratum) ^ uint64(i)*0xD1B54A32D192ED03)
				specs = append(specs, proto.RunSpec{Prop: prop, Scenario: it.Scenario, Stratum: it.Stratum, Seed: rs >> 1, Tier: "quick"})
			}
			hashes := make([]map[uint64]string, nProcs)
			var wg sync.WaitGroup
			sem := make(chan struct{}, nWorkers)
			for k := 0; k < nProcs; k++ {
				wg.Add(1)
				sem <- struct{}{}
				go func(k int) {
					defer wg.Done()
					defer func() { <-sem }()
					hashes[k] = map[uint64]string{}
					pending := specs
					for len(pending) > 0 {
						oc := runJob(bin, pending, 20*time.Minute, "GOMAXPROCS="+gmp[k%len(gmp)])
						for _, r := range oc.results {
							hashes[k][r.Seed] = r.LogHash + "/" + fmt.Sprint(r.Viol != nil) + "/" + r.Harness
						}
						if oc.crashed != nil {
							hashes[k][oc.crashed.Seed] = "CRASH"
						}
						pending = oc.leftover
					}
				}(k)
			}
			wg.Wait()
			nbad := 0
			for _, sp := range specs {
				total++
				ref := hashes[0][sp.Seed]
				for k := 1; k < nProcs; k++ {
					if hashes[k][sp.Seed] != ref {
						nbad++
						bad++
						fmt.Printf("  DIVERGED %s %s/%s seed=%d: %q vs %q (process %d, GOMAXPROCS=%s)\n", prop, it.Scenario, it.Stratum, sp.Seed, ref, hashes[k][sp.Seed], k, gmp[k%len(gmp)])
						break
					}
				}
			}
			fmt.Printf("selftest %s %s/%s: %d seeds x %d processes, %d diverged\n", prop, it.Scenario, it.Stratum, len(specs), nProcs, nbad)
		}
	}
	fmt.Printf("selftest: %d seeds, %d diverged, %.1fs\n", total, bad, time.Since(t0).Seconds())
	if bad > 0 {
		return 2
	}
	return 0
}
