package sim

import (
	"encoding/binary"
	"fmt"
	"time"

	kcp "github.com/xtaci/kcp-go/v5"
)

// Scenario "core-forge": one real core faces a scripted adversary that ignores
// the advertised window and forges every header field (C04 occupancy and
// truthful window, C05 survival and bounded holdings, C18 RTO bound under
// forged acknowledgement timing).

func putSeg(b []byte, conv uint32, cmd, frg uint8, wnd uint16, ts, sn, una, ln uint32) {
	binary.LittleEndian.PutUint32(b[0:], conv)
	b[4], b[5] = cmd, frg
	binary.LittleEndian.PutUint16(b[6:], wnd)
	binary.LittleEndian.PutUint32(b[8:], ts)
	binary.LittleEndian.PutUint32(b[12:], sn)
	binary.LittleEndian.PutUint32(b[16:], una)
	binary.LittleEndian.PutUint32(b[20:], ln)
}

func forgeU32(t *Tape, st string, around uint32, span int) uint32 {
	switch t.Choose(st, 8) {
	case 0:
		return around
	case 1:
		return around + uint32(t.Choose(st, span+1))
	case 2:
		return around - uint32(1+t.Choose(st, span+1))
	case 3:
		return around + uint32(span) + uint32(t.Choose(st, 4))
	case 4:
		return around + 0x7fffffff + uint32(t.Choose(st, 3)) - 1
	case 5:
		return around + 0x80000000
	case 6:
		return 0xffffffff - uint32(t.Choose(st, 4))
	default:
		return uint32(splitmixFrom(t, st))
	}
}

func splitmixFrom(t *Tape, st string) uint64 {
	x := uint64(t.Choose(st, 1<<30))<<30 | uint64(t.Choose(st, 1<<30))
	return splitmix(&x)
}

func scenCoreForge(r *Run) {
	s := r.S
	s.PanicProp = "C05"
	t := s.Tape
	const cs, fs = "cfg", "forge"
	cfg := DrawCoreCfg(t, cs)
	cfg.Driver = t.Choose(cs, 2)
	nDatagrams := 50 + t.Skewed(cs, 0, 1500)
	if r.Spec.Tier == "thorough" {
		nDatagrams = 50 + t.Skewed(cs, 0, 8000)
	}
	readerMode := t.Choose(cs, 3) // 0 reads always, 1 never, 2 sometimes
	bigInput := t.Chance(cs, 300) // raw-core inputs longer than a datagram
	ackStratum := r.Spec.Stratum == "acks"
	r.Res.Config = fmt.Sprintf("core{%s} datagrams=%d reader=%d big=%v acks=%v", cfg, nDatagrams, readerMode, bigInput, ackStratum)
	s.L.Logf("config %s", r.Res.Config)
	s.MaxSteps = 1 << 30
	s.MaxVirtual = 100 * time.Hour
	w := NewCoreWorld(s, true, time.Duration(t.Choose(cs, 3))*time.Duration(0x7ffffff0)*time.Millisecond)
	// the adversary end is only a sink for what the real core emits
	conv := uint32(0xabc)
	e := &CoreEnd{W: w, Name: "a", Cfg: cfg, xmit: map[uint32]int{}, peerWnd: 32, Forged: true}
	e.Key = 77
	e.Conn = w.Net.NewConn(MakeAddr(1, false))
	adv := &CoreEnd{W: w, Name: "adv", Cfg: CoreCfg{}, xmit: map[uint32]int{}}
	adv.Conn = w.Net.NewConn(MakeAddr(2, false))
	adv.Conn.Sink = func(string, []byte) {}
	e.Peer, adv.Peer = adv, e
	e.K = kcp.NewKCP(conv, e.output)
	if cfg.SndWnd > 0 || cfg.RcvWnd > 0 {
		e.K.WndSize(cfg.SndWnd, cfg.RcvWnd)
	}
	if cfg.MTU > 0 {
		e.K.SetMtu(cfg.MTU)
	}
	if cfg.SetNoDelay {
		e.K.NoDelay(cfg.NoDelay, cfg.Interval, cfg.Resend, cfg.NC)
	}
	e.K.VerifSetStream(cfg.Stream)
	w.Ends = []*CoreEnd{e}
	e.ReaderOff = readerMode == 1
	e.StartTicks()
	// the real core has data of its own to send, so forged ACK/UNA hit something
	e.Target = int64(1 + t.Skewed(cs, 0, 200*cfg.mss()))
	e.StartSender(t.Choose(cs, 5), 100, 50000)
	w.Links.Filter = func(p *OutPkt) ([]Delivery, bool) { return nil, true } // nothing comes back except forgeries

	maxHeld := 0
	for i := 0; i < nDatagrams && s.Viol == nil; i++ {
		gap := time.Duration(t.Skewed(fs, 0, 300000)) * time.Microsecond
		if ackStratum && t.Chance(fs, 100) {
			gap = time.Duration(t.Skewed(fs, 0, 100000)) * time.Millisecond // long silences: RTO back-off
		}
		s.Settle(gap)
		if s.Viol != nil {
			break
		}
		st := e.K.VerifStateLite()
		now := kcp.VerifCurrentMs()
		var dg []byte
		if t.Chance(fs, 80) {
			// pure noise
			n := t.Skewed(fs, 0, 1500)
			dg = make([]byte, n)
			x := splitmixFrom(t, fs)
			for j := range dg {
				dg[j] = byte(splitmix(&x))
			}
			if n >= 4 && t.Chance(fs, 500) {
				binary.LittleEndian.PutUint32(dg, conv)
			}
		} else {
			nseg := 1 + t.Skewed(fs, 0, 40)
			for j := 0; j < nseg; j++ {
				var cmd uint8
				switch k := t.Choose(fs, 12); {
				case ackStratum && k < 9:
					cmd = 82
				case k < 5:
					cmd = 81
				case k < 8:
					cmd = 82
				case k == 8:
					cmd = 83
				case k == 9:
					cmd = 84
				default:
					cmd = uint8(t.Choose(fs, 256))
				}
				frg := uint8(0)
				if t.Chance(fs, 300) {
					frg = uint8(t.Choose(fs, 256))
				}
				wnd := uint16(Pick(t, fs, []int{32, 0, 1, 2, 65535, 128, 1000, 7}))
				ts := forgeU32(t, fs, now, 2000)
				var sn uint32
				if cmd == 82 {
					sn = forgeU32(t, fs, st.SndUna, int(st.SndNxt-st.SndUna)+2)
				} else {
					sn = forgeU32(t, fs, st.RcvNxt, 2*cfg.rcvWnd()+2)
				}
				una := forgeU32(t, fs, st.SndUna, int(st.SndNxt-st.SndUna)+2)
				dlen := 0
				if cmd == 81 || t.Chance(fs, 50) {
					dlen = t.Skewed(fs, 0, 1400)
					if bigInput && t.Chance(fs, 100) {
						dlen = 1400 + t.Skewed(fs, 0, 60000)
					}
				}
				seg := make([]byte, 24+dlen)
				lenField := uint32(dlen)
				if t.Chance(fs, 60) {
					lenField = forgeU32(t, fs, uint32(dlen), 64) // lies about its length
				}
				c := conv
				if t.Chance(fs, 30) {
					c = conv + 1 + uint32(t.Choose(fs, 5))
				}
				putSeg(seg, c, cmd, frg, wnd, ts, sn, una, lenField)
				x := uint64(sn)*977 + uint64(j)
				for q := 24; q < len(seg); q++ {
					seg[q] = byte(splitmix(&x))
				}
				dg = append(dg, seg...)
				if !bigInput && len(dg) > 1500 {
					dg = dg[:1500]
					break
				}
			}
			if t.Chance(fs, 100) && len(dg) > 0 {
				dg = dg[:t.Choose(fs, len(dg))] // truncation
			}
		}
		s.Stats.Fault("forged-datagram")
		s.L.Logf("forge #%d len=%d h=%s", i, len(dg), hashBytes(dg))
		e.begin(2)
		ret := e.K.Input(dg, kcp.IKCP_PACKET_REGULAR, cfg.AckNoDelay)
		if ret == 0 {
			s.Stats.Probe("forgery-accepted")
		} else {
			s.Stats.Probe("forgery-rejected")
		}
		if readerMode == 0 || (readerMode == 2 && t.Chance(fs, 300)) {
			e.ReaderOff = false
			e.read()
			e.ReaderOff = readerMode != 0
		}
		s.quiesce()
		// bounded holdings: pooled buffers held by the core are limited by its
		// windows, whatever the peer sends
		held := w.Pool.Outstanding()
		if held > maxHeld {
			maxHeld = held
		}
		stf := e.K.VerifStateLite()
		bound := 2*cfg.rcvWnd() + stf.SndBuf + stf.SndQueue + 8
		if held > bound {
			s.Fail("C05", "bloat", "pooled-buffers-exceed-windows", "core holds %d pooled buffers after forged datagram %d; receive window %d, send side %d", held, i, cfg.rcvWnd(), stf.SndBuf+stf.SndQueue)
		}
		if stf.AckList > 2*(cfg.mtu()/24)+4096 {
			s.Fail("C05", "bloat", "ack-list-unbounded", "pending acknowledgement list has %d entries", stf.AckList)
		}
	}
	r.Res.VirtualMs = int64(s.Now() / time.Millisecond)
	r.Res.Completed = s.Viol == nil
	r.Res.Progress = s.Stats.Probes["forgery-accepted"] > 0
	s.Stats.ProbeN("max-pooled-buffers-held", maxHeld)
	if pv := w.Pool.Check(true); pv != nil {
		s.Fail(pv.Prop, pv.Oracle, pv.Sig[len("C15/pool/"):], "%s", pv.Detail)
	}
}

func init() {
	Register("core-forge", true, scenCoreForge)
}
