package sim

import (
	"fmt"
	"runtime"
	"sort"
	"strings"
	"testing"
	"testing/synctest"
	"time"
)

// Run is the context a scenario executes in.
type Run struct {
	S    *Sim
	Spec *RunSpec
	Res  *RunResult
	T    *testing.T
}

// ScenarioDef registers a scenario family.
type ScenarioDef struct {
	Name string
	Solo bool // single-goroutine (core / codec) simulation
	Fn   func(r *Run)
}

var Scenarios = map[string]*ScenarioDef{}

func Register(name string, solo bool, fn func(r *Run)) {
	Scenarios[name] = &ScenarioDef{Name: name, Solo: solo, Fn: fn}
}

// RunOne executes one run inside a fresh synctest bubble.
func RunOne(t *testing.T, spec RunSpec) (res RunResult) {
	res = RunResult{Prop: spec.Prop, Scenario: spec.Scenario, Stratum: spec.Stratum, Seed: spec.Seed}
	def := Scenarios[spec.Scenario]
	if def == nil {
		res.Harness = "unknown scenario " + spec.Scenario
		return
	}
	wall := time.Now()
	defer func() { res.WallUs = time.Since(wall).Microseconds() }()
	defer func() {
		if r := recover(); r != nil {
			msg := fmt.Sprint(r)
			if strings.Contains(msg, "blocked goroutines remain") || strings.Contains(msg, "deadlock") {
				// The bubble ended with goroutines still blocked. The scenario's own
				// census normally reports this first (as C15); if it did not, the
				// run is not trustworthy.
				if res.Viol == nil && res.Harness == "" {
					res.Harness = "bubble ended with blocked goroutines: " + firstLine(msg)
				}
				res.Known = "bubble-deadlock"
				return
			}
			res.Harness = "panic in driver: " + msg + " at " + shortStack()
		}
	}()
	synctest.Test(t, func(t *testing.T) {
		var tape *Tape
		if spec.Replay != nil || spec.IsReplay {
			tape = NewReplayTape(spec.Seed, spec.Replay)
		} else {
			tape = NewTape(spec.Seed)
		}
		s := NewSim(tape, def.Solo)
		s.Target = spec.Prop
		if spec.MaxSteps > 0 {
			s.MaxSteps = spec.MaxSteps
		}
		r := &Run{S: s, Spec: &spec, Res: &res, T: t}
		func() {
			defer func() {
				if p := recover(); p != nil {
					msg := fmt.Sprint(p)
					if strings.HasPrefix(msg, "harness:") || s.PanicProp == "" || !panicInLibrary() {
						res.Harness = "panic on driver goroutine: " + msg + " at " + shortStack()
					} else {
						// the driver was executing library code directly (solo mode):
						// this is a library panic
						res.Viol = &Violation{Prop: s.PanicProp, Oracle: "survive", Detail: "panic: " + msg + " at " + shortStack(), Sig: s.PanicProp + "/survive/panic:" + normPanic(msg)}
						if s.Target != "" && s.PanicProp != s.Target {
							// not a violation of the property this run decides, but the run
							// cannot be decided either
							res.Harness = "library panicked during the run (undecidable here; see " + s.PanicProp + "): " + res.Viol.Sig + ": " + res.Viol.Detail
							res.Viol = nil
						}
					}
				}
			}()
			def.Fn(r)
		}()
		if res.Viol == nil {
			res.Viol = s.Viol
		}
		res.CapHit = s.CapHit
		res.Steps = s.Steps
		if res.VirtualMs == 0 {
			res.VirtualMs = int64(s.Now() / time.Millisecond)
		}
		res.LogHash = s.L.Hash()
		res.ShapeHash = s.L.ShapeHash()
		res.LogLines = s.L.Lines()
		res.Draws = tape.Draws
		res.Faults = s.Stats.Faults
		res.Probes = s.Stats.Probes
		res.Foreign = s.Foreign
		if res.Viol != nil || spec.WantTape {
			res.Tape = tape.Record()
		}
		if res.Viol != nil || spec.WantLog {
			res.Log = s.L.Text()
		}
	})
	return
}

// panicInLibrary reports whether the function that panicked (the first frame
// below runtime's panic machinery) belongs to the library under test rather
// than to the harness. Must be called from a deferred function while panicking.
func panicInLibrary() bool {
	buf := make([]byte, 1<<16)
	n := runtime.Stack(buf, false)
	lines := strings.Split(string(buf[:n]), "\n")
	seenPanic := false
	for _, l := range lines {
		if strings.HasPrefix(l, "\t") {
			continue
		}
		if strings.HasPrefix(l, "panic(") || strings.HasPrefix(l, "runtime.") {
			if strings.HasPrefix(l, "panic(") {
				seenPanic = true
			}
			continue
		}
		if !seenPanic {
			continue
		}
		return strings.Contains(l, "xtaci/kcp-go") || strings.Contains(l, "klauspost/reedsolomon")
	}
	return false
}

// normPanic reduces a panic message to its class (numbers removed).
func normPanic(msg string) string {
	msg = firstLine(msg)
	var sb strings.Builder
	lastDigit := false
	for _, c := range msg {
		if c >= '0' && c <= '9' {
			if !lastDigit {
				sb.WriteByte('N')
			}
			lastDigit = true
			continue
		}
		lastDigit = false
		if c == ' ' {
			c = '_'
		}
		sb.WriteRune(c)
	}
	out := sb.String()
	if len(out) > 80 {
		out = out[:80]
	}
	return out
}

func firstLine(s string) string {
	if i := strings.IndexByte(s, '\n'); i >= 0 {
		return s[:i]
	}
	return s
}

func sortedKeys(m map[string]int) []string {
	ks := make([]string, 0, len(m))
	for k := range m {
		ks = append(ks, k)
	}
	sort.Strings(ks)
	return ks
}

// JournalMark, when set by the worker, records in the job's journal which
// phase of the current run is executing ("oracle/what" or "" for none), so that
// the supervisor can attribute a process crash inside that phase to the oracle
// the phase belongs to (C06: a crash between the injection of a datagram failing
// the integrity check and the following quiescence IS an effect of that datagram).
var JournalMark func(tag string)

// Mark records the phase of the run in the journal.
func Mark(tag string) {
	if JournalMark != nil {
		JournalMark(tag)
	}
}
