package sim

import (
	"fmt"
	"math"
	"sync"
	"time"

	kcp "github.com/xtaci/kcp-go/v5"
)

// C17: the timed scheduler runs every task exactly once, never early.
//
// Scenario "sched": the REAL TimedSched (hook H3 active) in a bubble, 1-8
// workers, 1-6 submitter goroutines. Deadlines: past, now, equal, increasing,
// decreasing, near and far future (hours), bursts; submissions are placed by the
// tape at +-1 ns around the expiry instants of tasks already queued and around
// each other; yield points in Put / prepend / sched are armed so that "timer
// fired" and "new task arrived" are ordered both ways by the tape (a goroutine
// parked there is released within a few nanoseconds of virtual time, after the
// competing stimulus, so parking itself never makes a task late); some tasks
// re-submit themselves like a session's update does; the scheduler is closed at
// a seeded point.

type schedTask struct {
	id          int
	deadline    time.Duration // virtual
	submit      time.Duration
	runs        int
	ranAt       time.Duration
	beforeClose bool
}

func scenSched(r *Run) {
	s := r.S
	t := s.Tape
	const cs, ev = "cfg", "sched"
	workers := 1
	if t.Chance(cs, 550) {
		workers = 2 + t.Choose(cs, 7)
	}
	nSub := 1 + t.Choose(cs, 6)
	nTasks := 5 + t.Skewed(cs, 0, 300)
	closeAt := -1
	if t.Chance(cs, 400) {
		closeAt = t.Choose(cs, nTasks)
	}
	yieldPM := 0
	if t.Chance(cs, 700) {
		yieldPM = 100 + t.Choose(cs, 600)
	}
	if workers > 1 {
		// Parking is combined with a single worker only. With several workers parked
		// at the same site the harness cannot tell them apart (the hook passes only
		// the site name) and the library's own selects choose among ready cases;
		// 0.25 % of such runs were not reproducible in the self-test. Several
		// workers are explored without parking, a single worker with it.
		yieldPM = 0
	}
	r.Res.Config = fmt.Sprintf("workers=%d submitters=%d tasks=%d close-after=%d yield=%d", workers, nSub, nTasks, closeAt, yieldPM)
	s.L.Logf("config %s", r.Res.Config)
	s.MaxSteps = 200000
	s.MaxVirtual = 1000 * time.Hour

	ts := kcp.NewTimedSched(workers)
	kcp.VerifPoolGet, kcp.VerifPoolPut = nil, nil

	// yield points: parked goroutines are released 0-3 ns later, in tape order
	if yieldPM > 0 {
		s.Yield = &YieldCtl{Armed: map[string]bool{}, Hits: map[string]int{}, From: map[string]int{}, To: map[string]int{}, Active: map[string]bool{}}
		var armed []string
		for _, site := range []string{"sched.put", "sched.prepend", "sched.task"} {
			if t.Chance(cs, 700) {
				s.Yield.Armed[site] = true
				armed = append(armed, site)
			}
		}
		// which armed sites park is decided per step, by the driver
		s.BeforeStep = func() {
			for _, site := range armed {
				s.SetActive(site, t.Chance("yield/arm/"+site, yieldPM))
			}
		}
	}
	kcp.VerifYield = s.yield
	usedRelease := map[time.Duration]bool{}
	nParked := 0
	s.OnDrain = func() {
		// Goroutines that parked at the same site within one cascade are
		// indistinguishable to the harness (the hook passes only the site), and the
		// order in which they arrived is the runtime's. They form one group: one
		// delay is drawn for the group and all of them are released in one step,
		// so that the outcome does not depend on that order.
		parked := s.TakeParked()
		for i := 0; i < len(parked); {
			j := i
			for j < len(parked) && parked[j].site == parked[i].site {
				j++
			}
			group := parked[i:j]
			site := group[0].site
			rel := (s.Now()+1)/64*64 + 16 + time.Duration(t.Choose("yield/"+site, 16))
			for rel <= s.Now() || usedRelease[rel] {
				rel += 64
			}
			usedRelease[rel] = true
			d := rel - s.Now()
			nParked += len(group)
			s.Stats.ProbeN("parked:"+site, len(group))
			_ = d
			// The worker's select can have a task arrival and a timer expiry ready at
			// once; the runtime's choice shifts later library instants by a nanosecond
			// (hook H3). Release instants are snapped to the grid above, so the jitter
			// does not propagate; the log records the snapped instant.
			s.L.LogfCoarse("%d parked at %s, release at %v", len(group), site, rel)
			s.At(rel, "release:"+site, func() {
				for _, p := range group {
					s.Release(p)
				}
			})
			i = j
		}
	}

	usedSlot2 := map[time.Duration]bool{} // guarded by mu
	var mu sync.Mutex                     // tasks run on scheduler goroutines
	tasks := []*schedTask{}
	closed := false
	closedAt := time.Duration(0)
	ranAfterClose := 0
	var subs []*Actor
	for i := 0; i < nSub; i++ {
		subs = append(subs, s.NewActor(fmt.Sprintf("sub%d", i)))
	}
	var queued []time.Duration // deadlines of tasks submitted and not yet due (harness view)

	var submit func(deadline time.Duration, resubmit int)
	submit = func(deadline time.Duration, resubmit int) {
		a := idleActor(subs)
		if a == nil || closed {
			return
		}
		mu.Lock()
		tk := &schedTask{id: len(tasks), deadline: deadline, submit: s.Now(), beforeClose: true}
		tasks = append(tasks, tk)
		mu.Unlock()
		if deadline < neverDeadline {
			queued = append(queued, deadline)
		}
		when := s.Epoch().Add(deadline)
		s.L.Logf("put task %d deadline=%v (now%+v)", tk.id, deadline, deadline-s.Now())
		var f func()
		f = func() {
			now := time.Since(s.Epoch())
			mu.Lock()
			tk.runs++
			tk.ranAt = now
			if closed {
				ranAfterClose++
			}
			mu.Unlock()
			if resubmit > 0 {
				// like a session's update(): re-submit from inside the task
				mu.Lock()
				rdl := now + time.Duration(resubmit)*time.Millisecond
				if workers > 1 {
					rdl = rdl/64*64 + 32 // odd half-slots: never collide with the driver's submissions
					for usedSlot2[rdl] {
						rdl += 64
					}
					usedSlot2[rdl] = true
				}
				nt := &schedTask{id: len(tasks), deadline: rdl, submit: now, beforeClose: !closed}
				tasks = append(tasks, nt)
				mu.Unlock()
				g := f
				tk2 := nt
				resubmit = 0
				ts.Put(func() {
					n2 := time.Since(s.Epoch())
					mu.Lock()
					tk2.runs++
					tk2.ranAt = n2
					if closed {
						ranAfterClose++
					}
					mu.Unlock()
					_ = g
				}, s.Epoch().Add(nt.deadline))
			}
		}
		a.Do("Put", func() any { ts.Put(f, when); return nil }, func(any) {})
	}

	done := 0
	at := time.Duration(0)
	usedSlot := map[time.Duration]bool{}
	for i := 0; i < nTasks; i++ {
		gap := time.Duration(0)
		switch t.Choose(ev, 6) {
		case 0:
			gap = 0 // burst
		case 1:
			gap = time.Duration(t.Choose(ev, 5)) * time.Nanosecond
		case 2:
			gap = time.Duration(t.Skewed(ev, 0, 1000000)) * time.Microsecond
		default:
			gap = time.Duration(t.Skewed(ev, 0, 50000)) * time.Microsecond
		}
		at += gap
		i := i
		// Instants are kept apart by residue classes modulo 64 ns, so that a harness
		// step never falls on the instant of a library timer (two timers due at the
		// same instant on different Ps fire in an order the runtime chooses):
		//   deadlines 0 (+-1 with a single worker), their post-expiry wake-up +1,
		//   re-submitted tasks 32/33, submissions 8/10/12 (their "now" tasks wake at
		//   9/11/13), releases of parked goroutines 16..31.
		s.At(at/64*64+time.Duration(8+2*(i%3)), "submit", func() {
			done++
			if i == closeAt && !closed {
				s.L.Logf("close scheduler")
				mu.Lock()
				closed = true
				closedAt = s.Now()
				for _, tk := range tasks {
					if tk.runs == 0 && tk.deadline > s.Now() {
						tk.beforeClose = false // not due before Close: need not run
					}
				}
				mu.Unlock()
				ts.Close()
				s.Stats.Fault("scheduler-closed")
				return
			}
			now := s.Now()
			var dl time.Duration
			switch t.Choose(ev, 9) {
			case 0:
				dl = now - time.Duration(1+t.Skewed(ev, 0, 1000000))*time.Microsecond // past
				s.Stats.Fault("deadline-past")
			case 1:
				dl = now // now
				s.Stats.Fault("deadline-now")
			case 2:
				// +-1 ns around the expiry of a queued task
				if len(queued) > 0 {
					dl = queued[t.Choose(ev, len(queued))] + time.Duration(t.Choose(ev, 3)-1)*time.Nanosecond
					s.Stats.Fault("deadline-around-queued")
				} else {
					dl = now + time.Millisecond
				}
			case 3:
				dl = now + time.Duration(t.Skewed(ev, 0, 5000))*time.Microsecond // near
			case 4:
				dl = now + time.Duration(1+t.Skewed(ev, 0, 100))*time.Hour // far future
				s.Stats.Fault("deadline-far-future")
			case 5:
				// equal to a queued deadline
				if len(queued) > 0 {
					dl = queued[t.Choose(ev, len(queued))]
					s.Stats.Fault("deadline-equal")
				} else {
					dl = now + time.Millisecond
				}
			case 6:
				if t.Chance(ev, 300) {
					// centuries away (beyond the years a nanosecond count since 1970 can
					// express): never due within the run, must delay nothing
					dl = time.Duration(math.MaxInt64) - time.Duration(t.Choose(ev, 1000))*time.Hour
					s.Stats.Fault("deadline-centuries-away")
				} else {
					dl = now + time.Duration(t.Skewed(ev, 0, 2000000))*time.Microsecond
				}
			default:
				dl = now + time.Duration(t.Skewed(ev, 0, 2000000))*time.Microsecond
			}
			re := 0
			if t.Chance(ev, 150) {
				re = 1 + t.Choose(ev, 100)
			}
			special := false
			if workers == 1 && dl > now {
				// single worker: equal and +-1 ns deadlines are allowed (one heap, one
				// goroutine); everything else sits on the 64 ns grid
				base := (dl + 1) / 64 * 64
				if dl >= base-1 && dl <= base+1 && usedSlot[base] {
					special = true
				} else {
					dl = dl / 64 * 64
					usedSlot[dl] = true
				}
			}
			_ = special
			if workers > 1 && dl > now {
				// Two WORKERS whose timers expire within the same nanoseconds run their
				// cascades concurrently, and the order in which they queue up for the
				// next task is the runtime's choice, not the seed's. With several
				// workers every future deadline therefore gets its own 64 ns slot;
				// equal and +-1 ns deadlines are explored with a single worker, where
				// they share one heap (which is where they matter).
				dl = dl / 64 * 64
				for usedSlot[dl] {
					dl += 64
				}
				usedSlot[dl] = true
			}
			submit(dl, re)
		})
	}
	// a second kind of stimulus: a submission placed exactly around a queued expiry instant
	s.Invariants = append(s.Invariants, func() {
		mu.Lock()
		defer mu.Unlock()
		for _, tk := range tasks {
			if tk.runs > 1 {
				s.Fail("C17", "exactly-once", "task-ran-twice", "task %d ran %d times", tk.id, tk.runs)
			}
			if tk.runs == 1 && tk.ranAt < tk.deadline {
				s.Fail("C17", "never-early", "task-ran-early", "task %d ran %v before its deadline", tk.id, tk.deadline-tk.ranAt)
			}
		}
		if ranAfterClose > 0 && false {
			// a task already handed to a worker may still be running when Close returns;
			// that is not forbidden
		}
	})
	s.Run(func() bool { return done >= nTasks })
	// let everything due run: advance beyond the largest near deadline (far-future
	// tasks are checked separately below)
	if s.Viol == nil {
		s.Settle(5 * time.Second)
	}
	// every parking can delay what is behind it by up to two 64 ns slots
	allow := time.Microsecond + time.Duration(4*len(tasks)+16)*time.Nanosecond + time.Duration(nParked)*128*time.Nanosecond
	check := func(final bool) {
		mu.Lock()
		defer mu.Unlock()
		now := s.Now()
		for _, tk := range tasks {
			due := tk.deadline
			if tk.submit > due {
				due = tk.submit
			}
			if !tk.beforeClose || tk.deadline >= neverDeadline {
				continue // (a never-due task that runs at all is caught by the never-early invariant)
			}
			if closed && due+allow >= closedAt {
				continue // could legitimately be cut off by Close
			}
			if tk.runs == 0 && now > due+allow {
				s.Fail("C17", "promptly", "task-not-run", "task %d (deadline %v, submitted %v) has not run %v after it was due", tk.id, tk.deadline, tk.submit, now-due)
				return
			}
			if tk.runs == 1 && tk.ranAt > due+allow {
				s.Fail("C17", "promptly", "task-ran-late", "task %d ran %v after it was due (deadline %v, submitted %v); allowance %v", tk.id, tk.ranAt-due, tk.deadline, tk.submit, allow)
				return
			}
		}
	}
	if s.Viol == nil {
		check(false)
	}
	// far-future tasks: jump there
	if s.Viol == nil && !closed {
		s.Settle(102 * time.Hour)
		check(true)
	}
	mu.Lock()
	ran := 0
	for _, tk := range tasks {
		ran += tk.runs
	}
	mu.Unlock()
	s.Stats.ProbeN("tasks-run", ran)
	r.Res.Progress = ran > 0
	r.Res.Completed = s.Viol == nil
	r.Res.VirtualMs = int64(s.Now() / time.Millisecond)
	// census: after Close nothing runs and all workers exit
	ts.Close()
	before := ran
	s.StopActors()
	kcp.VerifYield = nil
	s.OnDrain = nil
	for _, p := range s.TakeParked() {
		s.Release(p)
	}
	s.Settle(time.Hour)
	mu.Lock()
	after := 0
	for _, tk := range tasks {
		after += tk.runs
	}
	mu.Unlock()
	if s.Viol == nil && after != before {
		s.Fail("C17", "after-close", "task-ran-after-close", "%d task(s) ran after the scheduler had been closed and had settled", after-before)
	}
	if leaks := bubbleGoroutines(); len(leaks) > 0 && s.Viol == nil {
		s.Fail("C17", "after-close", "worker-survives-close", "%d scheduler goroutine(s) still exist after Close: %s", len(leaks), leaks[0])
		r.Res.Known = "leak"
	}
}

// neverDeadline: deadlines from here on are not due within any run.
const neverDeadline = 200 * 365 * 24 * time.Hour

func init() {
	Register("sched", false, scenSched)
}
