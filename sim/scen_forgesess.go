package sim

import (
	"encoding/binary"
	"fmt"
	"time"

	kcp "github.com/xtaci/kcp-go/v5"
)

// Scenario "forge-sess" (C05 at session level): structure-aware mutation of
// genuine datagrams. A captured datagram is opened with the harness's own
// cipher, its plaintext FEC / KCP header fields are edited, and it is re-sealed
// (fresh nonce, correct CRC / tag), so that it passes the integrity gate and
// reaches FEC and KCP parsing on the real session and listener paths. A forgery
// that passes the gate speaks with the peer's authority (a forged una
// legitimately discards unsent data), so the stream oracle is switched off for
// the session from the first injection; survival, the occupancy limits, the FEC
// decoder's holdings and the pool sanitizer stay on.

func scenForgeSess(r *Run) {
	s := r.S
	t := s.Tape
	const fs = "forge"
	o := DrawXferOpt(t, r.Spec.Tier)
	o.CfgA.RateLimit, o.CfgB.RateLimit = 0, 0
	if o.BytesAB < 20000 {
		o.BytesAB += 20000
	}
	o.MaxVirtual = 3 * time.Minute
	if r.Spec.Prop == "C05" {
		// occupancy beyond the window limits under forged input is this property's
		// "allocates without bound"
		s.Alias = map[string]string{"C04": "C05"}
	}
	x := NewXfer(r, o)
	w := x.W
	recent := map[string][][]byte{}
	base := s.OnEmit
	s.OnEmit = func(p *OutPkt) {
		base(p)
		if p.Frame == nil || p.Post {
			return
		}
		q := append(recent[p.Dst], append([]byte(nil), p.Data...))
		if len(q) > 24 {
			q = q[1:]
		}
		recent[p.Dst] = q
	}
	nInj := 5 + t.Skewed(fs, 0, 300)
	done := 0
	at := time.Duration(0)
	fecOf := func(c *SimConn) bool { fc := w.connFEC[c.id]; return fc[0] > 0 && fc[1] > 0 }
	for i := 0; i < nInj; i++ {
		at += time.Duration(t.Skewed(fs, 0, 100000)) * time.Microsecond
		s.At(at+time.Duration(i), "forge", func() {
			done++
			if w.TearingDown {
				return
			}
			var to *SimConn
			var from string
			var src *SimConn
			switch {
			case w.LConn != nil && t.Chance(fs, 500):
				to, from, src = w.LConn, x.A.Local, x.A.Conn
			case t.Chance(fs, 500) || x.B == nil || x.B.Conn == w.LConn:
				to, from = x.A.Conn, x.A.Remote
				if x.B != nil {
					src = x.B.Conn
				}
			default:
				to, from, src = x.B.Conn, x.B.Remote, x.A.Conn
			}
			q := recent[to.addrStr]
			if len(q) == 0 || to.IsClosed() || src == nil {
				return
			}
			g := q[t.Choose(fs, len(q))]
			if t.Chance(fs, 200) {
				// raw damage, not re-sealed: every short length, truncation anywhere,
				// bit flips, trailing garbage (rejected at the gate under a cipher,
				// parsed as it is without one)
				var d []byte
				what := ""
				kind := t.Choose(fs, 4)
				if to == w.LConn && o.World.Cipher == "null" && (kind == 0 || kind == 2) {
					// without a cipher these may carry a foreign conversation id, which
					// makes the listener create or replace a session (see kcp-conv below)
					kind = 1
				}
				switch kind {
				case 0:
					d = make([]byte, t.Choose(fs, 48))
					xx := splitmixFrom(t, fs)
					for j := range d {
						d[j] = byte(splitmix(&xx))
					}
					what = "raw-short"
				case 1:
					d = append([]byte(nil), g[:t.Choose(fs, len(g))]...)
					what = "raw-truncated"
				case 2:
					d = append([]byte(nil), g...)
					for j, n := 0, 1+t.Choose(fs, 4); j < n; j++ {
						d[t.Choose(fs, len(d))] ^= byte(1 << t.Choose(fs, 8))
					}
					what = "raw-bitflips"
				default:
					d = append([]byte(nil), g...)
					xx := splitmixFrom(t, fs)
					for j, n := 0, 1+t.Choose(fs, 1500-len(g)+1); j < n && len(d) < 1500; j++ {
						d = append(d, byte(splitmix(&xx)))
					}
					what = "raw-extended"
				}
				for _, ep := range w.Eps {
					ep.Out.NoCheck = true
					if ep.In != nil {
						ep.In.NoCheck = true
					}
				}
				s.L.Logf("inject damaged datagram (%s, %d bytes) into %s as from %s", what, len(d), to.addrStr, from)
				s.Stats.Fault("forged:" + what)
				w.Net.Deliver(to.addrStr, from, d, "forge")
				return
			}
			_, payload, ok, _ := w.Ref.Open(g)
			if !ok {
				return
			}
			pl := append([]byte(nil), payload...)
			fec := fecOf(src)
			seal := func(pl []byte, k int) []byte {
				nonce := make([]byte, 16)
				binary.LittleEndian.PutUint64(nonce, splitmixFrom(t, fs))
				binary.LittleEndian.PutUint64(nonce[8:], uint64(i)<<8+uint64(k)+1)
				return w.Ref.Seal(nonce, pl)
			}
			noJudge := func() {
				// from now on this session's streams are no longer judged
				for _, ep := range w.Eps {
					ep.Out.NoCheck = true
					if ep.In != nil {
						ep.In.NoCheck = true
					}
				}
			}
			if len(pl) >= off0(fec)+24 && t.Chance("forge-flood", 120) {
				// A peer that ignores the window it is shown: a burst of well-formed PUSH
				// segments with consecutive sequence numbers, as many as twice the
				// largest window, while the application reads at its own pace (a tape
				// stream of its own: older tapes keep their meaning)
				const ff = "forge-flood"
				o0 := off0(fec)
				h := pl[o0:]
				conv := binary.LittleEndian.Uint32(h[0:])
				sn0 := binary.LittleEndian.Uint32(h[12:]) + uint32(t.Choose(ff, 8))
				una := binary.LittleEndian.Uint32(h[16:])
				n := 1 + t.Skewed(ff, 0, 600)
				ln := 1 + t.Choose(ff, 40)
				noJudge()
				s.L.Logf("inject a burst of %d forged PUSH segments sn %d.. (%d bytes each) into %s as from %s", n, sn0, ln, to.addrStr, from)
				s.Stats.Fault("forged:push-flood")
				for j := 0; j < n; j++ {
					seg := make([]byte, 24+ln)
					putSeg(seg, conv, 81, 0, 32, 0, sn0+uint32(j), una, uint32(ln))
					fp := seg
					if fec {
						fp = make([]byte, 8+len(seg))
						binary.LittleEndian.PutUint32(fp, binary.LittleEndian.Uint32(pl)+uint32(1+j))
						binary.LittleEndian.PutUint16(fp[4:], 0xf1)
						binary.LittleEndian.PutUint16(fp[6:], uint16(len(seg)+2))
						copy(fp[8:], seg)
					}
					w.Net.Deliver(to.addrStr, from, seal(fp, j%250), "forge")
				}
				return
			}
			if fec && len(pl) >= 8+24 && t.Chance(fs, 250) {
				// A Reed-Solomon-consistent forged group: d-1 data packets and one
				// parity packet are injected, chosen so that the decoder RECONSTRUCTS
				// a packet of the forger's choosing (lying size field, forged header).
				fc := w.connFEC[src.id]
				d, par := fc[0], fc[1]
				ss := uint32(d + par)
				grp := binary.LittleEndian.Uint32(pl)/ss + 1 + uint32(t.Choose(fs, 3))
				bodies := make([][]byte, d+par)
				missing := t.Choose(fs, d)
				maxlen := 0
				for k := 0; k < d; k++ {
					var b []byte
					switch {
					case k == missing:
						b = append([]byte(nil), pl[6:]...)
						if t.Chance(fs, 500) && len(b) >= 2+24 {
							h := b[2:]
							binary.LittleEndian.PutUint32(h[12:], forgeU32(t, fs, binary.LittleEndian.Uint32(h[12:]), 300))
							binary.LittleEndian.PutUint32(h[20:], forgeU32(t, fs, binary.LittleEndian.Uint32(h[20:]), 64))
						}
						binary.LittleEndian.PutUint16(b, uint16(Pick(t, fs, []int{0, 1, 2, 3, 5, 25, 26, len(b) - 1, len(b), len(b) + 1, len(b) + 300, 65535})))
					case t.Chance(fs, 500) && to != w.LConn:
						// zeros: no segment at all (not at the listener, which reads a
						// conversation id out of every data packet and would replace the session)
						b = make([]byte, 2+t.Choose(fs, 64))
					default:
						b = append([]byte(nil), pl[6:]...)
					}
					if len(b) > maxlen {
						maxlen = len(b)
					}
					bodies[k] = b
				}
				if t.Chance(fs, 300) {
					maxlen += t.Choose(fs, 200) // the reconstructed packet is longer than its size field admits
				}
				sh := make([][]byte, d+par)
				for k := range sh {
					sh[k] = make([]byte, maxlen)
					copy(sh[k], bodies[k])
				}
				if err := rsFor(d, par).Encode(sh); err != nil {
					panic("harness: rs encode: " + err.Error())
				}
				pk := d + t.Choose(fs, par)
				var out [][]byte
				for k := 0; k < d+par; k++ {
					if k == missing || (k >= d && k != pk) {
						continue
					}
					body := sh[k]
					typ := 0xf2
					if k < d {
						body, typ = bodies[k], 0xf1
					}
					fp := make([]byte, 6+len(body))
					binary.LittleEndian.PutUint32(fp, grp*ss+uint32(k))
					binary.LittleEndian.PutUint16(fp[4:], uint16(typ))
					copy(fp[6:], body)
					dg := seal(fp, k)
					if len(dg) > 1500 {
						return
					}
					out = append(out, dg)
				}
				noJudge()
				s.L.Logf("inject a Reed-Solomon-consistent forged group %d (%d+%d, %d datagrams, reconstructs position %d with size field %d of %d) into %s as from %s", grp, d, par, len(out), missing, binary.LittleEndian.Uint16(bodies[missing]), maxlen, to.addrStr, from)
				s.Stats.Fault("forged:rs-consistent-group")
				for _, dg := range out {
					w.Net.Deliver(to.addrStr, from, dg, "forge")
				}
				return
			}
			off := 0
			what := ""
			if fec && len(pl) >= 8 {
				off = 8
				switch t.Choose(fs, 8) {
				case 0:
					binary.LittleEndian.PutUint32(pl, forgeU32(t, fs, binary.LittleEndian.Uint32(pl), 40))
					what = "fec-seqid"
				case 1:
					binary.LittleEndian.PutUint16(pl[4:], uint16(Pick(t, fs, []int{0xf1, 0xf2, 0xf3, 0, 0x51})))
					what = "fec-type"
				case 2:
					binary.LittleEndian.PutUint16(pl[6:], uint16(Pick(t, fs, []int{0, 1, 2, 3, 65535, len(pl) - 6 + 1, 1500})))
					what = "fec-size"
				case 3:
					binary.LittleEndian.PutUint32(pl, 0xffffffff-uint32(t.Choose(fs, 4)))
					what = "fec-seqid-wrap"
				}
			}
			if what == "" && len(pl) >= off+24 {
				// edit one KCP header field of one segment
				h := pl[off:]
				switch t.Choose(fs, 9) {
				case 0:
					binary.LittleEndian.PutUint32(h[20:], forgeU32(t, fs, binary.LittleEndian.Uint32(h[20:]), 64))
					what = "kcp-len"
				case 1:
					h[4] = byte(t.Choose(fs, 256))
					what = "kcp-cmd"
				case 2:
					if to == w.LConn {
						// a foreign conversation id makes the listener create a session (none
						// yet) or replace it (sn 0): legitimate, and exercised with its
						// fences by "peers"; here only the refused case is injected
						known := false
						for _, k := range w.L.VerifSessionKeys() {
							known = known || k == from
						}
						if !known || binary.LittleEndian.Uint32(h[12:]) == 0 {
							return
						}
					}
					binary.LittleEndian.PutUint32(h[0:], binary.LittleEndian.Uint32(h[0:])+uint32(1+t.Choose(fs, 3)))
					what = "kcp-conv"
				case 3:
					binary.LittleEndian.PutUint32(h[12:], forgeU32(t, fs, binary.LittleEndian.Uint32(h[12:]), 300))
					what = "kcp-sn"
				case 4:
					binary.LittleEndian.PutUint32(h[16:], forgeU32(t, fs, binary.LittleEndian.Uint32(h[16:]), 300))
					what = "kcp-una"
				case 5:
					binary.LittleEndian.PutUint16(h[6:], uint16(Pick(t, fs, []int{0, 1, 65535, 7})))
					what = "kcp-wnd"
				case 6:
					binary.LittleEndian.PutUint32(h[8:], forgeU32(t, fs, binary.LittleEndian.Uint32(h[8:]), 5000))
					what = "kcp-ts"
				case 7:
					h[5] = byte(t.Choose(fs, 256))
					what = "kcp-frg"
				default:
					pl = pl[:off+t.Choose(fs, len(pl)-off+1)] // truncated after the gate
					what = "truncated-inside"
				}
			}
			if what == "" {
				return
			}
			d := seal(pl, 255)
			if len(d) > 1500 {
				return
			}
			noJudge()
			s.L.Logf("inject content-valid forgery (%s, %d bytes) into %s as from %s", what, len(d), to.addrStr, from)
			s.Stats.Fault("forged:" + what)
			w.Net.Deliver(to.addrStr, from, d, "forge")
		})
	}
	// FEC decoder holdings stay bounded whatever arrives
	s.Invariants = append(s.Invariants, func() {
		for _, ep := range w.Eps {
			if ep.Closed || ep.CloseInvoked {
				continue
			}
			fi := ep.Sess.VerifFEC()
			if fi.ShardSets > 16 {
				s.Fail("C05", "bloat", "fec-shard-sets", "%s: the FEC decoder holds %d shard sets", ep.Name, fi.ShardSets)
			}
			if fi.Held > 16*256 {
				s.Fail("C05", "bloat", "fec-shards-held", "%s: the FEC decoder holds %d packets", ep.Name, fi.Held)
			}
		}
		if w.Pool != nil && !w.TearingDown {
			held := w.Pool.Outstanding()
			bound := 4096 + 64
			for _, ep := range w.Eps {
				if ep.Closed || ep.CloseInvoked {
					// a closed session's receive buffers are left to the collector
					return
				}
				st := ep.StateLite()
				bound += 2*ep.rcvWndCfg() + st.SndBuf + st.SndQueue + 16*256
			}
			if held > bound {
				s.Fail("C05", "bloat", "pooled-buffers-exceed-windows", "%d pooled buffers are outstanding, the windows and decoders account for at most %d", held, bound)
			}
		}
	})
	s.Run(func() bool { return done >= nInj && (x.Done() || s.Now() > at+5*time.Second) })
	// streams are not judged; readers and writers may never finish
	for _, ep := range w.Eps {
		ep.ReaderDone, ep.WriterDone = true, true
	}
	r.Res.Completed = s.Viol == nil
	r.Res.Progress = x.Progress()
	r.Res.VirtualMs = int64(s.Now() / time.Millisecond)
	if s.Viol != nil {
		w.QuickClose()
		return
	}
	x.Census()
	_ = fmt.Sprint
	_ = kcp.IKCP_OVERHEAD
}

func off0(fec bool) int {
	if fec {
		return 8
	}
	return 0
}

func init() {
	Register("forge-sess", false, scenForgeSess)
}
