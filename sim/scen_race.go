package sim

import (
	"fmt"
	"net"
	"os"
	"sync"
	"testing/synctest"
	"time"

	kcp "github.com/xtaci/kcp-go/v5"
)

// C14 (Mode R): free-running race mode. Same bubble (fake clock, so deadline,
// probe and RTO paths are reached in milliseconds of wall time), same simulated
// conns, but NO driver serialisation: actor goroutines loop over seeded API
// calls with per-actor generators and no harness synchronisation between
// calls, datagrams are delivered by per-datagram timers, the binary is built
// with -race and runs with GOMAXPROCS=16. The seed fixes workload,
// configuration and fault rates, NOT the interleaving. The oracle is the Go race
// detector; its reports are collected by the supervisor from the worker's
// stderr. The pool sanitizer is off (its mutex would add happens-before edges).

var raceDebug = os.Getenv("VERIF_RACEDBG") != ""

type lockedRand struct {
	mu sync.Mutex
	x  uint64
}

func (r *lockedRand) n(n int) int {
	r.mu.Lock()
	defer r.mu.Unlock()
	return int(splitmix(&r.x) % uint64(n))
}

func scenRace(r *Run) {
	s := r.S
	t := s.Tape
	const cs = "cfg"
	o := DrawXferOpt(t, r.Spec.Tier)
	o.World.PoolSan = false
	o.World.SchedWorkers = 2 + t.Choose(cs, 3)
	if o.World.FecD == 0 && t.Chance(cs, 600) {
		c := Pick(t, cs, fecChoices[1:5])
		o.World.FecD, o.World.FecP = c[0], c[1]
	}
	nClients := 1 + t.Choose(cs, 3)
	actorsPer := 4 + t.Choose(cs, 5)
	duration := time.Duration(1000+t.Choose(cs, 3000)) * time.Millisecond
	lossPM, dupPM := t.Skewed(cs, 0, 200), t.Skewed(cs, 0, 100)
	teardown := t.Choose(cs, 6)
	baseUs, jitUs := 50+t.Skewed(cs, 0, 20000), t.Skewed(cs, 0, 5000)
	r.Res.Config = fmt.Sprintf("cipher=%s fec=%d/%d udp=%v batch=%v workers=%d clients=%d actors/session=%d duration=%v loss=%d dup=%d delay=%d+%dus teardown=%d",
		o.World.Cipher, o.World.FecD, o.World.FecP, o.World.UDP, o.World.Batch, o.World.SchedWorkers, nClients, actorsPer, duration, lossPM, dupPM, baseUs, jitUs, teardown)
	s.L.Logf("config %s", r.Res.Config)
	w := NewWorld(s, o.World)
	// The property names the entropy source among what the sessions share: this
	// mode runs the library's own (the serialised modes replace it by a seeded
	// stream for reproducibility), both implementations in turn.
	if t.Chance(cs, 500) {
		kcp.SetEntropy(kcp.NewEntropyAES())
	} else {
		kcp.SetEntropy(kcp.NewEntropyChacha8())
	}
	kcp.VerifYield = nil
	s.Yield = nil
	s.Invariants = nil
	netRand := &lockedRand{x: s.Tape.Seed ^ 0xbeef}
	// Race WITNESS for the shared entropy source. Its critical section ends in
	// assembly (AES / ChaCha8 block functions) that the race detector does not
	// instrument, so an unsynchronised use is invisible to the detector; what it
	// produces is visible on the wire: two different datagrams of the run carrying
	// the same nonce. Both library sources are keyed generators whose outputs
	// cannot collide by chance (2^-64 at best), so an identical nonce in front of
	// DIFFERENT datagram contents proves that two goroutines were inside the
	// source at once. (Identical contents are not judged: that would be one
	// datagram written twice.) The table's mutex sits right next to netRand's,
	// which every emission takes anyway: no happens-before edge is added that the
	// free-running network did not have already.
	nonceLen := 0
	switch {
	case w.Ref.IsNull():
	case w.Ref.IsAEAD():
		nonceLen = w.Ref.HeaderSize()
	default:
		nonceLen = 16
	}
	var nonceMu sync.Mutex
	nonceSeen := map[string]uint64{}
	nonceReported := false
	nonceCount := 0
	// the free-running network
	w.Net.FreeDeliver = func(p *OutPkt) {
		if nonceLen > 0 && len(p.Data) >= nonceLen {
			h := fnvBytes(p.Data)
			k := string(p.Data[:nonceLen])
			nonceMu.Lock()
			nonceCount++
			if prev, dup := nonceSeen[k]; dup && prev != h && !nonceReported {
				nonceReported = true
				fmt.Fprintf(os.Stderr, "RACE-WITNESS: nonce-repeat :: two different datagrams of one run carry the same %d-byte nonce %x (cipher %s, datagram #%d of the run, from %s); with a keyed generator as entropy source this takes two goroutines inside it at once\n",
					nonceLen, p.Data[:nonceLen], w.Cipher, nonceCount, p.Src.addr)
			}
			nonceSeen[k] = h
			nonceMu.Unlock()
		}
		if netRand.n(1000) < lossPM {
			return
		}
		copies := 1
		if netRand.n(1000) < dupPM {
			copies = 2
		}
		dst := w.Net.conns[p.Dst]
		if dst == nil {
			return
		}
		from := net.Addr(p.Src.addr)
		for i := 0; i < copies; i++ {
			d := time.Duration(baseUs+netRand.n(jitUs+1)) * time.Microsecond
			data := p.Data
			time.AfterFunc(d, func() { dst.Push(from, data) })
		}
	}
	// every conn exists before anything transmits: the registry is read by the
	// free-running network from many goroutines
	var clientConns []*SimConn
	for c := 0; c < nClients; c++ {
		conn := w.Net.NewConn(MakeAddr(1+c, w.UDP))
		conn.UseBatch = w.Batch
		w.connFEC[conn.id] = [2]int{w.FecD, w.FecP}
		clientConns = append(clientConns, conn)
	}
	w.Listen()
	l := w.L
	var wg sync.WaitGroup
	stop := make(chan struct{})
	var sessMu sync.Mutex
	var sessions []*kcp.UDPSession
	block := w.block() // one cipher object shared by the dialled sessions, as applications do
	addSession := func(sess *kcp.UDPSession) {
		sessMu.Lock()
		sessions = append(sessions, sess)
		sessMu.Unlock()
	}
	runActors := func(name string, sess *kcp.UDPSession, seed uint64) {
		for a := 0; a < actorsPer; a++ {
			wg.Add(1)
			rnd := &lockedRand{x: seed ^ uint64(a+1)*0x9E3779B97F4A7C15}
			role := a
			go func() {
				defer wg.Done()
				buf := make([]byte, 4096)
				iter := 0
				for {
					iter++
					if raceDebug && role == 0 && iter%200 == 0 {
						fmt.Fprintf(os.Stderr, "dbg %s iter=%d vnow=%v\n", name, iter, s.Now())
					}
					select {
					case <-stop:
						return
					default:
					}
					k := rnd.n(34)
					if role == 0 {
						k = 0 // a dedicated reader
					} else if role == 1 && rnd.n(4) > 0 {
						k = 1 // a mostly-writer
					}
					switch k {
					case 0:
						sess.SetReadDeadline(time.Now().Add(time.Duration(1+rnd.n(50)) * time.Millisecond))
						sess.Read(buf[:1+rnd.n(len(buf))])
					case 1:
						sess.SetWriteDeadline(time.Now().Add(time.Duration(1+rnd.n(50)) * time.Millisecond))
						sess.Write(buf[:1+rnd.n(3000)])
					case 2:
						sess.SetWriteDeadline(time.Now().Add(time.Duration(1+rnd.n(50)) * time.Millisecond))
						sess.WriteBuffers([][]byte{buf[:1+rnd.n(100)], buf[200 : 201+rnd.n(1000)]})
					case 3:
						sess.SetDeadline(time.Now().Add(time.Duration(rnd.n(100)) * time.Millisecond))
					case 4:
						sess.SetReadDeadline(time.Time{})
					case 5:
						sess.SetWriteDeadline(time.Now().Add(-time.Second))
					case 6:
						sess.SetWindowSize(1+rnd.n(256), 1+rnd.n(256))
					case 7:
						sess.SetMtu(100 + rnd.n(1400))
					case 8:
						sess.SetNoDelay(rnd.n(2), 10+rnd.n(100), rnd.n(4), rnd.n(2))
					case 9:
						sess.SetACKNoDelay(rnd.n(2) == 0)
					case 10:
						sess.SetWriteDelay(rnd.n(2) == 0)
					case 11:
						sess.SetRateLimit(uint32(rnd.n(3)) * 200000)
					case 12:
						sess.SetOOBHandler(func(b []byte) { _ = len(b) })
					case 13:
						sess.SetOOBHandler(nil)
					case 14, 15:
						n := sess.GetOOBMaxSize()
						if n > 0 {
							sess.SendOOB(buf[:rnd.n(n+1)])
						} else {
							sess.SendOOB(buf[:10])
						}
					case 16:
						sess.GetOOBMaxSize()
					case 17:
						sess.GetConv()
					case 18:
						sess.GetRTO()
					case 19:
						sess.GetSRTT()
					case 20:
						sess.GetSRTTVar()
					case 21:
						_ = sess.LocalAddr()
						_ = sess.RemoteAddr()
					case 22:
						sess.SetReadBuffer(1 << 16)
					case 23:
						sess.SetWriteBuffer(1 << 16)
					case 24:
						sess.SetDSCP(rnd.n(64))
					case 25:
						sess.Control(func(conn net.PacketConn) error { _ = conn.LocalAddr(); return nil })
					case 26:
						kcp.DefaultSnmp.Copy()
					case 27:
						_ = kcp.DefaultSnmp.ToSlice()
					case 28:
						// Close from inside the crowd, rarely
						if rnd.n(40) == 0 {
							sess.Close()
						}
					default:
						time.Sleep(time.Duration(rnd.n(2000)) * time.Microsecond)
					}
					// virtual time only advances while every goroutine of the bubble is
					// blocked: each iteration blocks for a moment on the fake clock
					time.Sleep(time.Duration(100+rnd.n(2000)) * time.Microsecond)
				}
			}()
		}
	}
	// listener actors: Accept loop plus setters
	for a := 0; a < 2; a++ {
		wg.Add(1)
		rnd := &lockedRand{x: s.Tape.Seed ^ uint64(a+77)*0x9E3779B97F4A7C15}
		go func() {
			defer wg.Done()
			for {
				select {
				case <-stop:
					return
				default:
				}
				switch rnd.n(8) {
				case 0, 1, 2:
					l.SetDeadline(time.Now().Add(time.Duration(1+rnd.n(30)) * time.Millisecond))
					if sess, err := l.AcceptKCP(); err == nil {
						addSession(sess)
						runActors("srv", sess, uint64(rnd.n(1<<30)))
					}
				case 3:
					_ = l.Addr()
				case 4:
					l.SetReadBuffer(1 << 16)
					l.SetWriteBuffer(1 << 16)
				case 5:
					l.SetDSCP(rnd.n(64))
				case 6:
					l.Control(func(conn net.PacketConn) error { return nil })
				default:
					time.Sleep(time.Duration(rnd.n(3000)) * time.Microsecond)
				}
				time.Sleep(time.Duration(100+rnd.n(2000)) * time.Microsecond)
			}
		}()
	}
	for c := 0; c < nClients; c++ {
		conn := clientConns[c]
		sess, _ := kcp.NewConn3(uint32(0x7000+c), w.LConn.addr, block, w.FecD, w.FecP, conn)
		addSession(sess)
		runActors("cli", sess, s.Tape.Seed^uint64(c+1)*0xD1B54A32D192ED03)
	}
	time.Sleep(duration)
	// how the run ends is part of the configuration: orderly, or with the
	// transport failing under the crowd (socket read / write errors reach the
	// listener and the sessions while other goroutines are still using and
	// closing them)
	errSock := fmt.Errorf("simulated socket failure")
	switch teardown {
	case 1:
		w.LConn.InjectReadError(errSock)
		time.Sleep(time.Duration(1+netRand.n(20)) * time.Millisecond)
	case 2:
		for _, c := range clientConns {
			c.InjectReadError(errSock)
		}
		time.Sleep(time.Duration(1+netRand.n(20)) * time.Millisecond)
	case 3:
		w.LConn.InjectWriteError(errSock)
		for _, c := range clientConns {
			c.InjectWriteError(errSock)
		}
		time.Sleep(time.Duration(1+netRand.n(20)) * time.Millisecond)
	}
	close(stop)
	// everything down; blocked calls return through Close
	sessMu.Lock()
	all := append([]*kcp.UDPSession(nil), sessions...)
	sessMu.Unlock()
	switch teardown {
	case 4, 5:
		// sessions closed from goroutines of their own while the listener's socket
		// fails (4) or is closed under it (5)
		var cw sync.WaitGroup
		for _, sess := range all {
			cw.Add(1)
			go func() { defer cw.Done(); sess.Close() }()
		}
		if teardown == 4 {
			w.LConn.InjectReadError(errSock)
		} else {
			w.LConn.Close()
		}
		cw.Wait()
	default:
		for _, sess := range all {
			sess.Close()
		}
	}
	l.Close()
	for _, c := range w.Net.list {
		c.Close()
	}
	wg.Wait()
	// sessions accepted during the shutdown
	sessMu.Lock()
	for _, sess := range sessions {
		sess.Close()
	}
	sessMu.Unlock()
	// a closed session still drains what is queued for post-processing, at the
	// configured rate limit: that can take a while (virtual time is free)
	for i := 0; i < 300; i++ {
		time.Sleep(500 * time.Millisecond)
		synctest.Wait()
		if len(bubbleGoroutinesExcept("TimedSched")) == 0 {
			break
		}
	}
	w.Sched.Close()
	synctest.Wait()
	if leaks := bubbleGoroutines(); len(leaks) > 0 {
		for _, l := range leaks {
			s.L.Notef("still alive at the end: %s", l)
		}
		if raceDebug {
			for _, l := range leaks {
				fmt.Fprintln(os.Stderr, "LEAK", l)
			}
		}
	}
	sn := kcp.DefaultSnmp.Copy()
	s.Stats.ProbeN("segments-in", int(sn.InSegs))
	s.Stats.ProbeN("segments-out", int(sn.OutSegs))
	s.Stats.ProbeN("retransmitted", int(sn.RetransSegs))
	s.Stats.ProbeN("sessions", len(all))
	s.Stats.ProbeN("fec-recovered", int(sn.FECRecovered))
	s.Stats.ProbeN("oob-packets", int(sn.OOBPackets))
	nonceMu.Lock()
	s.Stats.ProbeN("nonces-compared", nonceCount)
	nonceMu.Unlock()
	if lossPM > 0 {
		s.Stats.Fault("loss-configured")
	}
	r.Res.Progress = sn.InSegs > 0
	r.Res.Completed = true
	r.Res.VirtualMs = int64(s.Now() / time.Millisecond)
}

func init() {
	Register("race", false, scenRace)
}
