package sim

import (
	"encoding/binary"
	"fmt"
	"io"
	"net"
	"os"
	"reflect"
	"runtime"
	"strings"
	"sync"
	"testing/synctest"
	"time"
	"unsafe"

	kcp "github.com/xtaci/kcp-go/v5"
)

// ---------------------------------------------------------------------------
// deterministic payload streams: byte i of flow k is a pure function of (k,i),
// so any misplaced, duplicated, altered or foreign byte is attributable.
// ---------------------------------------------------------------------------

func flowFill(key uint64, pos int64, b []byte) {
	for i := range b {
		p := pos + int64(i)
		x := key ^ uint64(p>>3)*0x9E3779B97F4A7C15
		v := splitmix(&x)
		b[i] = byte(v >> (8 * uint(p&7)))
	}
}

func flowCheck(key uint64, pos int64, b []byte) int {
	exp := make([]byte, len(b))
	flowFill(key, pos, exp)
	for i := range b {
		if b[i] != exp[i] {
			return i
		}
	}
	return -1
}

// lockedEntropy is the seeded nonce source handed to kcp.SetEntropy. The library
// calls it from several goroutines, so it carries its own mutex.
type lockedEntropy struct {
	mu sync.Mutex
	x  uint64
}

func (e *lockedEntropy) Read(p []byte) (int, error) {
	e.mu.Lock()
	defer e.mu.Unlock()
	for i := 0; i < len(p); i += 8 {
		v := splitmix(&e.x)
		var tmp [8]byte
		binary.LittleEndian.PutUint64(tmp[:], v)
		copy(p[i:], tmp[:])
	}
	return len(p), nil
}

// ---------------------------------------------------------------------------
// configuration
// ---------------------------------------------------------------------------

// SessCfg is the per-session tuning applied through the public setters.
type SessCfg struct {
	SndWnd, RcvWnd                 int // 0 = leave default
	MTU                            int // 0 = leave default
	NoDelay, Interval, Resend, NC  int
	SetNoDelay                     bool
	Stream, WriteDelay, AckNoDelay bool
	RateLimit                      uint32
	Dup                            int // SetDUP: extra copies of every data datagram (a testing knob of the library)
}

func (c SessCfg) String() string {
	return fmt.Sprintf("wnd=%d/%d mtu=%d nodelay=%v(%d,%d,%d,%d) stream=%v wdelay=%v acknodelay=%v rate=%d dup=%d",
		c.SndWnd, c.RcvWnd, c.MTU, c.SetNoDelay, c.NoDelay, c.Interval, c.Resend, c.NC, c.Stream, c.WriteDelay, c.AckNoDelay, c.RateLimit, c.Dup)
}

var wndChoices = []int{0, 1, 2, 3, 4, 8, 16, 64, 128, 256, 1024, 1500}

// DrawSessCfg draws a session configuration from the tape (0 = all defaults).
func DrawSessCfg(t *Tape, stream string, overhead int) SessCfg {
	var c SessCfg
	c.SndWnd = Pick(t, stream, wndChoices)
	c.RcvWnd = Pick(t, stream, wndChoices)
	switch t.Choose(stream, 6) {
	case 0:
	case 1:
		c.MTU = 1500
	case 2:
		c.MTU = 576
	case 3:
		c.MTU = overhead + 24 + 1 + t.Choose(stream, 64) // tiny MSS
	case 4:
		c.MTU = 200 + t.Choose(stream, 1200)
	case 5:
		c.MTU = 1400
	}
	if t.Chance(stream, 600) {
		c.SetNoDelay = true
		c.NoDelay = t.Choose(stream, 2)
		c.Interval = Pick(t, stream, []int{10, 20, 40, 100, 500})
		c.Resend = t.Choose(stream, 4)
		c.NC = t.Choose(stream, 2)
	}
	c.Stream = t.Chance(stream, 400)
	c.WriteDelay = t.Chance(stream, 300)
	c.AckNoDelay = t.Chance(stream, 300)
	return c
}

// Apply configures a session through its public API only.
func (c SessCfg) Apply(sess *kcp.UDPSession) (mtuOK bool) {
	mtuOK = true
	if c.SndWnd > 0 || c.RcvWnd > 0 {
		sess.SetWindowSize(c.SndWnd, c.RcvWnd)
	}
	if c.MTU != 0 {
		mtuOK = sess.SetMtu(c.MTU)
	}
	if c.SetNoDelay {
		sess.SetNoDelay(c.NoDelay, c.Interval, c.Resend, c.NC)
	}
	if c.Stream {
		sess.SetStreamMode(true)
	}
	if c.WriteDelay {
		sess.SetWriteDelay(true)
	}
	if c.AckNoDelay {
		sess.SetACKNoDelay(true)
	}
	if c.Dup > 0 {
		sess.SetDUP(c.Dup)
	}
	if c.RateLimit > 0 {
		sess.SetRateLimit(c.RateLimit)
	}
	return
}

// ---------------------------------------------------------------------------
// world
// ---------------------------------------------------------------------------

// Flow is one direction of one connection with its reference stream (O-stream).
type Flow struct {
	Name    string
	Key     uint64
	Target  int64 // bytes the writer intends to write in total
	Offered int64 // bytes handed to Write calls so far (upper bound of W)
	Written int64 // bytes of Write calls that returned success
	Read    int64 // bytes returned by Read so far
	WirePos int64 // bytes reassembled from the wire by the independent decoder
	wire    *wireFlow
	NoCheck bool   // content checks off (after a content-valid forgery, C05)
	ISN     uint32 // first sequence number of the flow (non-zero only in wrap scenarios)
}

// Endpoint is one session together with the harness's knowledge about it.
type Endpoint struct {
	Name         string
	W            *World
	Sess         *kcp.UDPSession
	Conn         *SimConn
	Local        string
	Remote       string
	Cfg          SessCfg
	Out, In      *Flow
	Peer         *Endpoint
	MTU          int // MTU in force (session level)
	PrevMTU      int // still allowed for datagrams queued before the last change
	PrevUntil    int // ... until this many datagrams have been emitted
	Emitted      int
	CloseInvoked bool
	Closed       bool
	// DrainFast: the liveness oracles (C02 after the heal, C03 after the resumption)
	// bound the LIBRARY's time to deliver; from that instant the application reads
	// without pauses into a large buffer, so that its own pace is not in the bound.
	DrainFast bool
	Accepted  bool

	// StaleFECRisk: this session lives on an address pair that hosted another
	// conversation before (reconnect); FECRecoveredAtStart is the library's
	// recovery counter when it was created.
	StaleFECRisk        bool
	FECRecoveredAtStart uint64

	// ReplacedOK: the listener is expected to close this session because its peer
	// started a new conversation from the same address.
	ReplacedOK bool

	// RecoveredUnderWrongRatio: the library counted a FEC recovery while this
	// endpoint's decoder used a ratio different from its peer's encoder.
	RecoveredUnderWrongRatio bool

	lastRaw uint64 // hash of the last datagram emitted (configured duplicates, SetDUP)
	dupRun  int

	fecGrp     uint32 // current FEC group of this endpoint's encoder (wire view)
	fecGrpInit bool
	fecGrpMTU  int // largest MTU in force while its data packets were emitted

	Reader, Writer *Actor
	ReaderDone     bool
	WriterDone     bool
	ReadErr        error
	WriteErr       error
}

// World is a simulated deployment: network, links, scheduler, sessions.
type World struct {
	// NoSilenceCheck switches the O-silence invariant off (scenarios that inject
	// forged acknowledgements or starve a session on purpose).
	NoSilenceCheck bool
	// ListenerClosedMidway: the scenario closed the listener during the run
	// (emissions of sessions the harness never got from Accept are post-close).
	ListenerClosedMidway bool
	S                    *Sim
	Net                  *Net
	Links                *Links
	Pool                 *PoolSan

	Cipher string
	Key    []byte
	Ref    *RefCipher
	FecD   int
	FecP   int
	// FecD2/FecP2: ratio of the "other" side (session B of a pair, or the
	// listener); equal to FecD/FecP unless a mismatch scenario sets them.
	FecD2, FecP2 int
	Mismatch     bool
	UDP          bool
	Batch        bool

	Sched  *kcp.TimedSched
	Eps    []*Endpoint
	byFlow map[string]*Endpoint
	L      *kcp.Listener
	LConn  *SimConn
	LEp    string

	nonces   map[string]struct{}
	rawSeen  map[string]struct{}
	convSeq  uint32
	ClockOff time.Duration

	// per-conn wire configuration chosen by the harness
	connFEC map[int][2]int

	snmp0 *kcp.Snmp

	// CheckOnce: C18 clean path - every data sn appears exactly once on the wire.
	CheckOnce bool

	lastRecovered uint64

	// ReportCrossConv: report (instead of counting) the recorded finding "FEC
	// recovery across conversations of one address pair".
	ReportCrossConv bool

	// TearingDown: the harness is closing everything; which error a call that is
	// still blocked reports then (closed pipe or the transport's close error) is
	// the runtime's choice among ready select cases, so it is noted, not hashed.
	TearingDown bool
	// ReportParityStraddle: report (instead of counting) the recorded finding
	// "parity of a group straddling an MTU reduction exceeds the new MTU".
	ReportParityStraddle bool
}

// WorldOpt selects global knobs of a world.
type WorldOpt struct {
	Cipher     string
	FecD, FecP int
	// Mismatch: the other side uses FecD2/FecP2 (0/0 = no FEC there)
	Mismatch     bool
	FecD2, FecP2 int
	UDP          bool
	Batch        bool
	SchedWorkers int
	PoolSan      bool
	ClockOffset  time.Duration
}

// NewWorld installs the simulation seams (clock base, scheduler, entropy, pool
// sanitizer, yield hook) and builds an empty world. Must run inside the bubble.
func NewWorld(s *Sim, opt WorldOpt) *World {
	w := &World{S: s, Net: NewNet(s), Cipher: opt.Cipher, FecD: opt.FecD, FecP: opt.FecP, UDP: opt.UDP, Batch: opt.Batch,
		byFlow: map[string]*Endpoint{}, nonces: map[string]struct{}{}, rawSeen: map[string]struct{}{}, connFEC: map[int][2]int{}}
	w.FecD2, w.FecP2 = opt.FecD, opt.FecP
	if opt.Mismatch {
		w.Mismatch, w.FecD2, w.FecP2 = true, opt.FecD2, opt.FecP2
	}
	w.Links = NewLinks(s)
	s.Fate = w.Links.Fate
	s.OnEmit = w.onEmit
	s.IsPost = func(p *OutPkt) bool {
		ep := w.byFlow[p.Src.addrStr+">"+p.Dst]
		if ep == nil && w.ListenerClosedMidway && p.Src == w.LConn {
			// a session the listener was creating when it was closed: closed by the
			// library itself, its last flush exists or not by the runtime's choice
			return true
		}
		return ep != nil && ep.CloseInvoked
	}
	if w.Cipher == "" {
		w.Cipher = "null"
	}
	w.Key = make([]byte, cipherKeyLen(w.Cipher))
	kx := s.Tape.Seed ^ 0x5eed
	for i := range w.Key {
		w.Key[i] = byte(splitmix(&kx))
	}
	var err error
	if w.Ref, err = NewRefCipher(w.Cipher, w.Key); err != nil {
		panic("harness: " + err.Error())
	}
	w.ClockOff = opt.ClockOffset
	kcp.VerifSetRefTime(time.Now().Add(-opt.ClockOffset))
	workers := opt.SchedWorkers
	if workers <= 0 {
		workers = 1
	}
	w.Sched = kcp.NewTimedSched(workers)
	kcp.SystemTimedSched = w.Sched
	kcp.SetEntropy(&lockedEntropy{x: s.Tape.Seed ^ 0xe47})
	kcp.DefaultSnmp.Reset()
	if opt.PoolSan {
		w.Pool = NewPoolSan()
		kcp.VerifPoolGet = w.Pool.Get
		kcp.VerifPoolPut = w.Pool.Put
		s.Invariants = append(s.Invariants, func() {
			if v := w.Pool.Check(false); v != nil {
				s.Fail(v.Prop, v.Oracle, strings.TrimPrefix(v.Sig, "C15/pool/"), "%s", v.Detail)
			}
		})
	} else {
		kcp.VerifPoolGet, kcp.VerifPoolPut = nil, nil
	}
	// Goroutines woken from a blocked Read/Write by one cascade (e.g. an input
	// packet that signals both the readers and the writers of a session) would
	// race for the session mutex in an order the runtime chooses. They park right
	// after the wake-up and are released one per step, in the order of their
	// actor names, at the same virtual instant.
	s.Yield = &YieldCtl{Armed: map[string]bool{"read.wake": true, "write.wake": true}, Hits: map[string]int{},
		From: map[string]int{}, To: map[string]int{"read.wake": 1 << 62, "write.wake": 1 << 62}}
	s.OnDrain = func() {
		for _, p := range s.TakeParked() {
			p := p
			s.Stats.Probe("serialised-wake-up")
			if hashDebug {
				s.L.Notef("parked %s who=%q", p.site, p.who)
			}
			s.At(s.Now(), "wake:"+p.who, func() { s.Release(p) })
		}
	}
	kcp.VerifYield = s.yield
	w.InstallBounds()
	return w
}

func (w *World) block() kcp.BlockCrypt {
	b, err := LibCipher(w.Cipher, w.Key)
	if err != nil {
		panic("harness: " + err.Error())
	}
	return b
}

// Overhead is the number of bytes the session layer adds in front of / around a
// KCP frame under this world's cipher and FEC configuration.
func (w *World) Overhead(fec bool) int {
	o := w.Ref.Overhead()
	if fec {
		o += 8
	}
	return o
}

func (w *World) newFlow(name string) *Flow {
	return &Flow{Name: name, Key: hashString(name) ^ w.S.Tape.Seed*0x2545F4914F6CDD1D, wire: &wireFlow{segs: map[uint32][]byte{}}}
}

// NewPair creates two dialled sessions talking to each other (no listener).
func (w *World) NewPair(ca, cb SessCfg, ownConn bool) (a, b *Endpoint) {
	w.convSeq++
	conv := 0x1000 + w.convSeq
	addrA, addrB := MakeAddr(1, w.UDP), MakeAddr(2, w.UDP)
	connA, connB := w.Net.NewConn(addrA), w.Net.NewConn(addrB)
	connA.UseBatch, connB.UseBatch = w.Batch, w.Batch
	w.connFEC[connA.id] = [2]int{w.FecD, w.FecP}
	w.connFEC[connB.id] = [2]int{w.FecD2, w.FecP2}
	sa, _ := kcp.NewConn4(conv, addrB, w.block(), w.FecD, w.FecP, ownConn, connA)
	sb, _ := kcp.NewConn4(conv, addrA, w.block(), w.FecD2, w.FecP2, ownConn, connB)
	a = w.addEndpoint("A", sa, connA, addrB.String(), ca)
	b = w.addEndpoint("B", sb, connB, addrA.String(), cb)
	a.Peer, b.Peer = b, a
	a.Out, b.Out = w.newFlow("A>B"), w.newFlow("B>A")
	a.In, b.In = b.Out, a.Out
	return
}

// Listen creates the listener on its own simulated conn.
func (w *World) Listen() {
	addr := MakeAddr(100, w.UDP)
	w.LConn = w.Net.NewConn(addr)
	w.LConn.UseBatch = w.Batch
	w.connFEC[w.LConn.id] = [2]int{w.FecD2, w.FecP2}
	l, err := kcp.ServeConn(w.block(), w.FecD2, w.FecP2, w.LConn)
	if err != nil {
		panic("harness: " + err.Error())
	}
	w.L = l
}

// Dial creates a client session towards the listener from host h.
func (w *World) Dial(name string, h int, conv uint32, cfg SessCfg) *Endpoint {
	addr := MakeAddr(h, w.UDP)
	conn := w.Net.conns[addr.String()]
	if conn == nil {
		conn = w.Net.NewConn(addr)
		conn.UseBatch = w.Batch
		w.connFEC[conn.id] = [2]int{w.FecD, w.FecP}
	}
	sess, _ := kcp.NewConn3(conv, w.LConn.addr, w.block(), w.FecD, w.FecP, conn)
	ep := w.addEndpoint(name, sess, conn, w.LConn.addrStr, cfg)
	ep.Out = w.newFlow(name + ">S")
	return ep
}

// Adopt registers an accepted session as the server-side endpoint of client c.
func (w *World) Adopt(name string, sess *kcp.UDPSession, c *Endpoint, cfg SessCfg) *Endpoint {
	ep := w.addEndpoint(name, sess, w.LConn, sess.RemoteAddr().String(), cfg)
	ep.Accepted = true
	ep.Out = w.newFlow(name + ">" + c.Name)
	ep.In = c.Out
	c.In = ep.Out
	ep.Peer, c.Peer = c, ep
	return ep
}

func (w *World) addEndpoint(name string, sess *kcp.UDPSession, conn *SimConn, remote string, cfg SessCfg) *Endpoint {
	ep := &Endpoint{Name: name, W: w, Sess: sess, Conn: conn, Local: conn.addrStr, Remote: remote, Cfg: cfg, MTU: 1400}
	if !cfg.Apply(sess) {
		panic(fmt.Sprintf("harness: configuration MTU %d refused", cfg.MTU))
	}
	if cfg.MTU != 0 {
		ep.MTU = min(cfg.MTU, 1500)
	}
	w.Eps = append(w.Eps, ep)
	w.byFlow[conn.addrStr+">"+remote] = ep
	w.S.L.Logf("endpoint %s %s->%s conv=%d cfg{%s}", name, conn.addrStr, remote, sess.GetConv(), cfg)
	return ep
}

// State snapshots the core of an endpoint under its session mutex.
func (ep *Endpoint) State() kcp.VerifKCPState {
	var st kcp.VerifKCPState
	ep.Sess.VerifWithLock(func(k *kcp.KCP) { st = k.VerifState() })
	return st
}

// StateLite is State without the walk over the send buffer.
func (ep *Endpoint) StateLite() kcp.VerifKCPState {
	var st kcp.VerifKCPState
	ep.Sess.VerifWithLock(func(k *kcp.KCP) { st = k.VerifStateLite() })
	return st
}

// ---------------------------------------------------------------------------
// teardown and leak census (O-leak)
// ---------------------------------------------------------------------------

// Teardown closes what the scenario has not closed yet, lets the library settle
// and takes the goroutine census. It returns the stacks of leaked goroutines.
func (w *World) Teardown(order []int) (leaks []string) {
	s := w.S
	w.TearingDown = true
	type closer struct {
		name string
		f    func()
	}
	var cs []closer
	for _, ep := range w.Eps {
		ep := ep
		cs = append(cs, closer{"sess:" + ep.Name, func() {
			if !ep.CloseInvoked {
				ep.CloseInvoked = true
				ep.Sess.Close()
				ep.Closed = true
			}
		}})
	}
	if w.L != nil {
		cs = append(cs, closer{"listener", func() { w.L.Close() }})
	}
	for _, c := range w.Net.list {
		c := c
		cs = append(cs, closer{"conn:" + c.addrStr, func() { c.Close() }})
	}
	// seeded order: order[i] picks among the remaining closers
	for i := 0; len(cs) > 0; i++ {
		k := 0
		if i < len(order) {
			k = order[i] % len(cs)
		}
		c := cs[k]
		cs = append(cs[:k], cs[k+1:]...)
		s.L.Logf("teardown close %s", c.name)
		c.f()
		if !s.Solo {
			synctest.Wait()
		}
		s.drain()
	}
	// grace: longer than the largest update interval and pending timers
	grace := 12 * time.Second
	s.Settle(grace)
	emitted := 0
	for _, c := range w.Net.list {
		emitted += c.Sent
	}
	updates := s.Hits("update.entry")
	s.Settle(time.Hour)
	after := 0
	for _, c := range w.Net.list {
		after += c.Sent
	}
	if after != emitted {
		s.Fail("C15", "leak", "activity-after-close", "%d datagrams emitted more than %v after everything was closed", after-emitted, grace)
	}
	if u := s.Hits("update.entry"); u != updates {
		s.Fail("C15", "leak", "callback-after-close", "%d scheduled session callbacks still ran more than %v after everything was closed", u-updates, grace)
	}
	w.Sched.Close()
	kcp.VerifYield = nil
	for _, p := range s.TakeParked() {
		s.Release(p)
	}
	s.StopActors()
	if !s.Solo {
		synctest.Wait()
	}
	if os.Getenv("VERIF_LEAKDBG") != "" {
		if l := bubbleGoroutines(); len(l) > 0 {
			buf := make([]byte, 1<<20)
			n := runtime.Stack(buf, true)
			fmt.Fprintf(os.Stderr, "LEAKDBG\n%s\n", buf[:n])
			for _, ep := range w.Eps {
				dieClosed := "?"
				if f := reflect.ValueOf(ep.Sess).Elem().FieldByName("die"); f.IsValid() {
					ch := *(*chan struct{})(unsafe.Pointer(f.UnsafeAddr()))
					select {
					case <-ch:
						dieClosed = "closed"
					default:
						dieClosed = "OPEN"
					}
				}
				fmt.Fprintf(os.Stderr, "LEAKDBG ep %s closeInvoked=%v closed=%v sess=%p die=%s\n", ep.Name, ep.CloseInvoked, ep.Closed, ep.Sess, dieClosed)
			}
		}
	}
	return bubbleGoroutines()
}

func (w *World) retLog() func(string, ...any) {
	if w.TearingDown {
		return w.S.L.Notef
	}
	return w.S.L.Logf
}

// QuickClose closes everything without grace period or census (used after a
// violation has already ended the run).
func (w *World) QuickClose() {
	w.TearingDown = true
	for _, ep := range w.Eps {
		if !ep.CloseInvoked {
			ep.CloseInvoked = true
			ep.Sess.Close()
		}
	}
	if w.L != nil {
		w.L.Close()
	}
	for _, c := range w.Net.list {
		c.Close()
	}
	w.Sched.Close()
	kcp.VerifYield = nil
	for _, p := range w.S.TakeParked() {
		w.S.Release(p)
	}
	w.S.StopActors()
}

// bubbleGoroutinesExcept is bubbleGoroutines without those whose stack mentions
// the given word.
func bubbleGoroutinesExcept(word string) []string {
	var out []string
	for _, g := range bubbleGoroutines() {
		if !strings.Contains(g, word) {
			out = append(out, g)
		}
	}
	return out
}

// bubbleGoroutines lists goroutines of the current synctest bubble other than
// the caller, reduced to their library frames.
func bubbleGoroutines() []string {
	buf := make([]byte, 1<<20)
	n := runtime.Stack(buf, true)
	var out []string
	me := goid()
	for _, g := range strings.Split(string(buf[:n]), "\n\n") {
		lines := strings.Split(g, "\n")
		if len(lines) == 0 || !strings.Contains(lines[0], "synctest bubble") {
			continue
		}
		if strings.HasPrefix(lines[0], fmt.Sprintf("goroutine %d ", me)) {
			continue
		}
		if strings.Contains(g, "internal/synctest.Run") || strings.Contains(g, "testingSynctestTest") {
			continue // the bubble's own infrastructure
		}
		var fr []string
		for _, l := range lines[1:] {
			if strings.HasPrefix(l, "\t") || strings.HasPrefix(l, "created by") {
				continue
			}
			if i := strings.LastIndex(l, "("); i > 0 {
				l = l[:i]
			}
			fr = append(fr, l)
			if len(fr) >= 6 {
				break
			}
		}
		out = append(out, lines[0]+" "+strings.Join(fr, " < "))
	}
	return out
}

// ---------------------------------------------------------------------------
// helpers for results of API calls performed by actors
// ---------------------------------------------------------------------------

type ioRes struct {
	n   int
	err error
	buf []byte
	at  time.Duration
}

func isTimeout(err error) bool {
	type to interface{ Timeout() bool }
	for err != nil {
		if t, ok := err.(to); ok && t.Timeout() {
			return true
		}
		u, ok := err.(interface{ Unwrap() error })
		if !ok {
			c, ok2 := err.(interface{ Cause() error })
			if !ok2 {
				return false
			}
			err = c.Cause()
			continue
		}
		err = u.Unwrap()
	}
	return false
}

func isClosedPipe(err error) bool {
	for err != nil {
		if err == io.ErrClosedPipe {
			return true
		}
		if c, ok := err.(interface{ Cause() error }); ok {
			err = c.Cause()
			continue
		}
		if u, ok := err.(interface{ Unwrap() error }); ok {
			err = u.Unwrap()
			continue
		}
		return false
	}
	return false
}

var _ net.PacketConn = (*SimConn)(nil)
