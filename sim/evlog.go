package sim

import (
	"fmt"
	"hash/fnv"
	"os"
	"strings"
	"time"
)

// EvLog is the event log of one run. Every line feeds a running hash (the
// "event-log hash" that replay must reproduce); the text itself is kept up to a
// cap so that a replay file can show the minimised run. Logging draws nothing
// from the tape and reads no real clock.
type EvLog struct {
	h      uint64
	n      int
	head   []string
	tail   []string
	Keep   int // lines kept at each end
	now    func() time.Duration
	shapeH uint64 // hash of the abstract stimulus sequence (kind, endpoint)
}

var hashDebug = os.Getenv("VERIF_HASHDBG") != ""

func NewEvLog(now func() time.Duration) *EvLog {
	keep := 150
	if hashDebug {
		keep = 1 << 20
	}
	return &EvLog{h: 14695981039346656037, shapeH: 14695981039346656037, Keep: keep, now: now}
}

func (l *EvLog) mix(s string) {
	for i := 0; i < len(s); i++ {
		l.h ^= uint64(s[i])
		l.h *= 1099511628211
	}
	l.h ^= '\n'
	l.h *= 1099511628211
}

// Logf appends a line stamped with virtual time.
func (l *EvLog) Logf(format string, args ...any) {
	line := fmt.Sprintf("%12.6fms ", float64(l.now())/1e6) + fmt.Sprintf(format, args...)
	l.mix(line)
	if hashDebug {
		line = fmt.Sprintf("[%016x] %s", l.h, line)
	}
	l.keep(line)
}

// LogfCoarse is Logf with the time stamp truncated to whole microseconds, for
// events whose instant can jitter by a nanosecond for reasons the seed does not
// control (a library select with two ready cases).
func (l *EvLog) LogfCoarse(format string, args ...any) {
	us := int64(l.now()) / 1000
	line := fmt.Sprintf("%9d.~~~us ", us) + fmt.Sprintf(format, args...)
	l.mix(line)
	l.keep(line)
}

// Notef appends a line that is NOT part of the hash (used for facts that the
// runtime, not the seed, decides and that the design fences off).
func (l *EvLog) Notef(format string, args ...any) {
	line := fmt.Sprintf("%12.6fms # ", float64(l.now())/1e6) + fmt.Sprintf(format, args...)
	l.keep(line)
}

func (l *EvLog) keep(line string) {
	l.n++
	if len(l.head) < l.Keep {
		l.head = append(l.head, line)
		return
	}
	l.tail = append(l.tail, line)
	if len(l.tail) > 2*l.Keep {
		l.tail = append(l.tail[:0], l.tail[len(l.tail)-l.Keep:]...)
	}
}

// Shape mixes an abstract stimulus (kind, endpoint) into the shape hash.
func (l *EvLog) Shape(kind string) {
	for i := 0; i < len(kind); i++ {
		l.shapeH ^= uint64(kind[i])
		l.shapeH *= 1099511628211
	}
	l.shapeH ^= 0xff
	l.shapeH *= 1099511628211
}

func (l *EvLog) Hash() string      { return fmt.Sprintf("%016x", l.h) }
func (l *EvLog) ShapeHash() string { return fmt.Sprintf("%016x", l.shapeH) }
func (l *EvLog) Lines() int        { return l.n }

// Text returns the kept part of the log.
func (l *EvLog) Text() []string {
	out := append([]string(nil), l.head...)
	t := l.tail
	if len(t) > l.Keep {
		t = t[len(t)-l.Keep:]
	}
	if l.n > len(l.head)+len(t) {
		out = append(out, fmt.Sprintf("... %d lines omitted ...", l.n-len(l.head)-len(t)))
	}
	return append(out, t...)
}

func hashBytes(b []byte) string {
	h := fnv.New64a()
	h.Write(b)
	return fmt.Sprintf("%016x", h.Sum64())
}

func hex8(b []byte) string {
	const digits = "0123456789abcdef"
	n := len(b)
	if n > 8 {
		n = 8
	}
	var sb strings.Builder
	for i := 0; i < n; i++ {
		sb.WriteByte(digits[b[i]>>4])
		sb.WriteByte(digits[b[i]&15])
	}
	return sb.String()
}
