package sim

import (
	"encoding/binary"
	"fmt"
	"net"
	"sync"
	"time"

	kcp "github.com/xtaci/kcp-go/v5"
)

// C11: sessions on one socket are isolated; one Accept per new peer.
//
// Scenario "peers" (Mode S): one listener, 1-8 clients (more in the thorough
// tier, beyond the accept backlog) with distinct addresses and distinct keyed
// payload streams; seeded order of connect / transfer / close / reconnect from
// the same address with a new conversation id; an acceptor that sometimes
// stalls; an injector that delivers, to the listener and to dialled sessions,
// datagrams captured from other peers re-addressed, stale datagrams of closed
// conversations, forged datagrams with a different conversation id (sn != 0)
// from a peer's own address, and datagrams from unknown addresses - all under
// loss, duplication and reordering.

type peerClient struct {
	idx              int
	host             int
	addr             string
	conv             uint32
	ep               *Endpoint // current client session
	srv              *Endpoint // server-side session, once accepted
	midRead          int64     // bytes delivered at the midpoint of the long accept stall
	accepts          int
	gen              int // reconnect generation
	closedAt         time.Duration
	captured         [][]byte // datagrams of this client seen on the wire (for re-addressing / staleness)
	reconnectPending bool
	oldSrv           *Endpoint // server-side session of the previous conversation, until replaced
	target           int64
	oobTags          map[uint64]bool
}

type peersWorld struct {
	r              *Run
	s              *Sim
	w              *World
	clients        []*peerClient
	byAddr         map[string]*peerClient
	unknownAccepts int
	forgedHosts    map[string]bool
	acceptor       *Actor
	stallPM        int
	oob            bool
	mu             sync.Mutex
	oobGot         []oobGot
	mode           IOMode

	closeRace      bool     // stratum close-race: the application's Close of the old session is held across the replacement
	heldClose      *parkedG // the application's Close parked at close.afterdie
	longStallAfter int      // accept this many peers, then stall for longStall (0 = never)
	nAccepted      int
	longStalled    bool
}

const longStall = 2 * time.Minute

func scenPeers(r *Run) {
	s := r.S
	t := s.Tape
	const cs, ps = "cfg", "peers"
	o := DrawXferOpt(t, r.Spec.Tier)
	o.Listen = true
	oob := r.Spec.Stratum == "oob"
	if oob && o.World.FecD == 0 {
		c := Pick(t, cs, fecChoices[1:])
		o.World.FecD, o.World.FecP = c[0], c[1]
	}
	// per-session tuning stays at defaults: what is explored here is demultiplexing
	o.CfgA, o.CfgB = SessCfg{}, SessCfg{}
	o.Link.Outages, o.Link.GEGoodBad = nil, 0
	if o.Link.LossPM > 200 {
		o.Link.LossPM = 200
	}
	if o.Link.BaseUs > 50000 {
		o.Link.BaseUs = 50000
	}
	if r.Spec.Stratum == "backlog" {
		// (the progress oracle of the long stall must not be at the mercy of a run
		// of consecutive losses of one segment)
		o.Link.BaseUs = max(o.Link.BaseUs, 5000)
		o.Link.LossPM = min(o.Link.LossPM, 50)
	}
	crossConv := r.Spec.Stratum == "reconnect-fec"
	if crossConv {
		// provokes and reports the recorded finding: FEC on, clients that reconnect
		// while their old server-side session still has data in flight
		if o.World.FecD == 0 {
			c := Pick(t, cs, fecChoices[1:5])
			o.World.FecD, o.World.FecP = c[0], c[1]
		}
		o.Link.LossPM = 100 + t.Choose(ps, 200)
	}
	nClients := 1 + t.Choose(ps, 8)
	lclose := r.Spec.Stratum == "listener-close"
	longStallAfter := 0
	if r.Spec.Stratum == "backlog" {
		nClients = 120 + t.Choose(ps, 40)
		if t.Chance(ps, 600) {
			// the application accepts a few peers and then stops accepting for two
			// minutes while more peers than the backlog holds keep arriving: the
			// sessions it has must not be stalled by the ones it has not
			longStallAfter = 1 + t.Choose(ps, 5)
			nClients = longStallAfter + 129 + t.Choose(ps, 30)
		}
	}
	if lclose {
		nClients = 1 + t.Choose(ps, 4)
	}
	s.MaxVirtual = 20 * time.Minute
	s.MaxSteps = 300000
	s.Alias = map[string]string{"C01": "C11"}
	if oob && r.Spec.Prop == "C19" {
		s.Alias = map[string]string{"C01": "C19", "C11": "C19"}
	}
	w := NewWorld(s, o.World)
	w.ReportCrossConv = crossConv
	w.Links.Default = o.Link
	w.Listen()
	pw := &peersWorld{r: r, s: s, w: w, byAddr: map[string]*peerClient{}, forgedHosts: map[string]bool{}, oob: oob}
	pw.stallPM = 0
	pw.longStallAfter = longStallAfter
	if r.Spec.Stratum == "close-race" {
		// The application closes its server-side session of a peer (as a handler
		// does when it is done or its Read failed) at the very moment that peer's
		// NEW conversation arrives from the same address: Close is held right after
		// it marked the session dead (yield point close.afterdie), the listener
		// processes the first datagram of the new conversation - it finds the dead
		// session, replaces it - and Close is released afterwards. The replacement
		// must be untouched: one Accept, and its stream flows.
		pw.closeRace = true
		s.mu.Lock()
		s.Yield.Armed["close.afterdie"] = true
		s.Yield.Active = map[string]bool{"read.wake": true, "write.wake": true, "close.afterdie": false}
		s.mu.Unlock()
		s.OnDrain = func() {
			for _, p := range s.TakeParked() {
				p := p
				if p.site == "close.afterdie" {
					pw.heldClose = p
					s.SetActive("close.afterdie", false)
					s.Stats.Fault("close-held-across-replacement")
					continue
				}
				s.Stats.Probe("serialised-wake-up")
				s.At(s.Now(), "wake:"+p.who, func() { s.Release(p) })
			}
		}
	}
	if t.Chance(ps, 400) || r.Spec.Stratum == "backlog" {
		pw.stallPM = 100 + t.Choose(ps, 500)
	}
	pw.mode = IOMode{Kind: t.Choose(cs, 5)}
	listenerClosedAt := time.Duration(-1)
	if lclose {
		// C15: Listener.Close lands exactly while the listener's receive goroutine
		// is creating the session of a new peer (parked at a yield point between
		// the "closed?" test, the registration and the hand-over to the backlog).
		// Whatever the order, nothing the library started may survive.
		site := Pick(t, ps, []string{"listener.accept", "listener.newsess"})
		k := t.Choose(ps, nClients)
		s.mu.Lock()
		s.Yield.Armed[site] = true
		s.Yield.From[site], s.Yield.To[site] = k, k+1
		s.mu.Unlock()
		s.OnDrain = func() {
			for _, p := range s.TakeParked() {
				p := p
				if p.site != site {
					s.Stats.Probe("serialised-wake-up")
					s.At(s.Now(), "wake:"+p.who, func() { s.Release(p) })
					continue
				}
				s.Stats.Fault("listener-closed-during-session-creation")
				s.At(s.Now(), "listener-close", func() {
					s.L.Logf("the listener's receive goroutine is at %s (hit %d); the application closes the listener", site, k)
					w.ListenerClosedMidway = true
					w.L.Close()
					listenerClosedAt = s.Now()
					s.After(time.Duration(1+t.Skewed(ps, 0, 5000))*time.Microsecond, "release", func() { s.Release(p) })
				})
			}
		}
	}
	r.Res.Config = fmt.Sprintf("clients=%d stall=%d oob=%v cipher=%s fec=%d/%d udp=%v batch=%v link{base=%dus jit=%dus loss=%d dup=%d reorder=%d/%dus}", nClients, pw.stallPM, oob,
		o.World.Cipher, o.World.FecD, o.World.FecP, o.World.UDP, o.World.Batch, o.Link.BaseUs, o.Link.JitterUs, o.Link.LossPM, o.Link.DupPM, o.Link.ReorderPM, o.Link.ReorderUs)
	s.L.Logf("config %s", r.Res.Config)

	// capture what every client puts on the wire
	base := s.OnEmit
	s.OnEmit = func(p *OutPkt) {
		base(p)
		if c := pw.byAddr[p.Src.addrStr]; c != nil && p.Dst == w.LConn.addrStr && len(c.captured) < 64 && !p.Post {
			c.captured = append(c.captured, append([]byte(nil), p.Data...))
		}
	}

	// When the first datagram of a client's new conversation reaches the listener,
	// the listener closes the old server-side session itself. What that session
	// emits from then on (its final flush) exists or not by the runtime's choice,
	// like after any Close: it is classified as post-close from this instant.
	w.Net.OnDeliver = func(to *SimConn, from string, data []byte) {
		if to != w.LConn {
			return
		}
		c := pw.byAddr[from]
		if pw.closeRace && pw.heldClose != nil && c != nil && c.oldSrv != nil {
			if f, err := DecodeFrame(w.Ref, w.FecD > 0 && w.FecP > 0, data); err == nil && !f.OOB && len(f.Segs) > 0 && f.Segs[0].Conv == c.conv && f.Segs[0].Sn == 0 {
				// the listener is about to replace the dead session; let Close go on
				// once it has
				p := pw.heldClose
				pw.heldClose = nil
				s.After(time.Duration(1+s.Tape.Skewed("peers-closerace", 0, 2000))*time.Microsecond, "release-close", func() {
					s.L.Logf("the held Close continues")
					s.Release(p)
				})
			}
		}
		if c == nil || c.oldSrv == nil || c.oldSrv.CloseInvoked {
			return
		}
		f, err := DecodeFrame(w.Ref, w.FecD > 0 && w.FecP > 0, data)
		if err != nil || f.OOB {
			return
		}
		if len(f.Segs) > 0 && f.Segs[0].Conv == c.conv && f.Segs[0].Sn == 0 {
			c.oldSrv.CloseInvoked = true
			// ... and the application, whose Read on the old session now fails, closes
			// it as applications do (a second Close of a session the listener has
			// already replaced must not disturb the replacement)
			old := c.oldSrv
			s.After(time.Duration(1+s.Tape.Skewed("peers-appclose", 0, 100000))*time.Microsecond, "app-closes-replaced-session", func() {
				if w.TearingDown || old.Closed {
					return
				}
				err := old.Sess.Close()
				old.Closed = true
				s.L.Logf("the application closes the replaced session %s -> %v", old.Name, err)
				s.Stats.Fault("app-closes-replaced-session")
			})
		}
	}

	// clients
	at := time.Duration(0)
	for i := 0; i < nClients; i++ {
		c := &peerClient{idx: i, host: 1000 + i, conv: uint32(0x5000 + i*16), oobTags: map[uint64]bool{}}
		c.target = int64(1 + t.Skewed(ps, 0, 30000))
		if crossConv {
			c.target = int64(1 + t.Choose(ps, 3000))
		}
		pw.clients = append(pw.clients, c)
		if longStallAfter > 0 {
			// everybody arrives within about a second, and the first ones have enough
			// to send to be still at it when the backlog overflows
			if i < longStallAfter {
				c.target = 300000 + int64(t.Choose(ps, 700000))
			}
			at += time.Duration(t.Skewed(ps, 0, 5000)) * time.Microsecond
		} else {
			at += time.Duration(t.Skewed(ps, 0, 200000)) * time.Microsecond
		}
		s.At(at+time.Duration(i), "connect", func() { pw.connect(c) })
	}
	pw.acceptor = s.NewActor("acceptor")
	pw.acceptLoop()

	// injector
	nInj := t.Skewed(ps, 0, 120)
	if lclose {
		nInj = 0
	}
	iat := time.Duration(0)
	for i := 0; i < nInj; i++ {
		iat += time.Duration(t.Skewed(ps, 0, 300000)) * time.Microsecond
		s.At(iat+time.Duration(i), "inject", func() { pw.inject() })
	}
	// OOB traffic (C19 isolation across sessions of one listener)
	if oob {
		nO := 5 + t.Skewed(ps, 0, 100)
		oat := time.Duration(0)
		var tag uint64
		for i := 0; i < nO; i++ {
			oat += time.Duration(t.Skewed(ps, 0, 200000)) * time.Microsecond
			s.At(oat+time.Duration(i), "oob", func() {
				if w.TearingDown {
					return
				}
				c := pw.clients[t.Choose(ps, len(pw.clients))]
				if c.ep == nil || c.ep.CloseInvoked {
					return
				}
				tag++
				size := 8 + t.Choose(ps, 200)
				data := oobPayload(tag|uint64(c.idx+1)<<40, size)
				c.oobTags[tag|uint64(c.idx+1)<<40] = true
				if err := c.ep.Sess.SendOOB(data); err == nil {
					s.Stats.Probe("oob-sent")
				}
			})
		}
	}
	s.Invariants = append(s.Invariants, pw.invariants)
	finished := func() bool {
		for _, c := range pw.clients {
			if c.ep == nil || c.reconnectPending {
				return false
			}
			if c.srv == nil || c.srv.In.Read < c.srv.In.Target || !c.ep.WriterDone {
				return false
			}
		}
		return true
	}
	s.Run(func() bool {
		return finished() || (listenerClosedAt >= 0 && s.Now() > listenerClosedAt+3*time.Second)
	})
	r.Res.Completed = finished() || listenerClosedAt >= 0
	for _, c := range pw.clients {
		if c.srv != nil && c.srv.In.Read > 0 {
			r.Res.Progress = true
		}
	}
	r.Res.VirtualMs = int64(s.Now() / time.Millisecond)
	if s.Viol == nil && r.Res.Completed && listenerClosedAt < 0 {
		for _, c := range pw.clients {
			if c.accepts != 1+c.gen {
				s.Fail("C11", "accept", "accept-count", "client %d (%s): %d conversations were started, Accept returned %d sessions for it", c.idx, c.addr, 1+c.gen, c.accepts)
			}
		}
	}
	if s.Viol != nil {
		w.QuickClose()
		return
	}
	x := &Xfer{R: r, S: s, W: w, Opt: o}
	x.Census()
}

func (pw *peersWorld) connect(c *peerClient) {
	s, w := pw.s, pw.w
	if w.TearingDown {
		return
	}
	name := fmt.Sprintf("c%d.%d", c.idx, c.gen)
	ep := w.Dial(name, c.host, c.conv, SessCfg{})
	c.addr = ep.Local
	pw.byAddr[c.addr] = c
	ep.Out.Target = c.target
	ep.In = w.newFlow("S>" + name)
	ep.In.Target = 0
	c.ep = ep
	c.srv = nil
	c.reconnectPending = false
	if c.gen > 0 {
		ep.StaleFECRisk, ep.FECRecoveredAtStart = true, kcp.DefaultSnmp.Copy().FECRecovered
	}
	s.Stats.Fault("connect")
	ep.StartWriter(pw.mode)
}

func (pw *peersWorld) acceptLoop() {
	s, w := pw.s, pw.w
	const ps = "peers"
	var next func()
	next = func() {
		pause := time.Duration(0)
		if s.Tape.Chance(ps, pw.stallPM) {
			pause = time.Duration(s.Tape.Skewed(ps, 0, 2000000)) * time.Microsecond
			s.Stats.Fault("acceptor-stall")
		}
		var established []*peerClient
		if pw.longStallAfter > 0 && !pw.longStalled && pw.nAccepted >= pw.longStallAfter {
			pw.longStalled = true
			pause = longStall
			s.Stats.Fault("acceptor-long-stall")
			for _, c := range pw.clients {
				if c.srv != nil && c.gen == 0 && !c.reconnectPending {
					established = append(established, c)
				}
			}
			s.L.Logf("the application stops accepting for %v with %d session(s) established", longStall, len(established))
			s.After(longStall/2, "long-stall-midpoint", func() {
				for _, c := range established {
					if c.srv != nil {
						c.midRead = c.srv.In.Read
					}
				}
			})
		}
		s.After(pause, "accept", func() {
			if pw.acceptor.Busy() || w.TearingDown {
				return
			}
			if established != nil && s.Viol == nil {
				n, capacity := w.L.VerifBacklog()
				if n == capacity {
					s.Stats.Probe("backlog-full-during-long-stall")
				}
				for _, c := range established {
					if c.gen != 0 || c.srv == nil || c.srv.Closed || c.ep.CloseInvoked {
						continue
					}
					// no completion time is demanded (tiny writes at a 100 ms flush interval are
					// slow), only that a whole minute does not pass without a byte delivered
					if c.srv.In.Read < c.srv.In.Target && c.srv.In.Read == c.midRead {
						s.Fail("C11", "isolation", "established-session-stalled-by-unaccepted-peers", "while the application did not accept for %v (backlog %d of %d), the established session of peer %s delivered nothing during the last %v: it stands at %d of %d bytes", longStall, n, capacity, c.addr, longStall/2, c.srv.In.Read, c.srv.In.Target)
						return
					}
					if c.srv.In.Read < c.srv.In.Target {
						s.Stats.Probe("established-session-progressing-during-long-stall")
					}
				}
			}
			l := w.L
			pw.acceptor.Do("Accept", func() any {
				sess, err := l.AcceptKCP()
				if err != nil {
					return err
				}
				return sess
			}, func(res any) {
				sess, ok := res.(*kcp.UDPSession)
				if !ok {
					w.retLog()("ret  Accept -> %v", res)
					return
				}
				addr, conv := sess.RemoteAddr().String(), sess.GetConv()
				if w.TearingDown {
					// the harness is closing everything; nobody will use this session
					sess.Close()
					return
				}
				s.L.Logf("ret  Accept -> session from %s conv=%d", addr, conv)
				c := pw.byAddr[addr]
				if c == nil {
					// a "peer" the injector invented: the listener cannot tell
					pw.unknownAccepts++
					if !pw.forgedHosts[addr] {
						s.Fail("C11", "accept", "accept-from-nowhere", "Accept returned a session from %s, nothing was ever sent from that address", addr)
					}
					ep := &Endpoint{Name: fmt.Sprintf("u%d", pw.unknownAccepts), W: w, Sess: sess, Conn: w.LConn, Local: w.LConn.addrStr, Remote: addr, MTU: 1400, Accepted: true}
					ep.Out, ep.In = w.newFlow(ep.Name+">x"), w.newFlow("x>"+ep.Name)
					ep.Out.NoCheck, ep.In.NoCheck = true, true
					w.Eps = append(w.Eps, ep)
					w.byFlow[ep.Local+">"+addr] = ep
					next()
					return
				}
				c.accepts++
				pw.nAccepted++
				if conv != c.conv {
					s.Fail("C11", "accept", "wrong-conversation", "accepted session from %s has conv %d, the peer at that address uses %d", addr, conv, c.conv)
				}
				if c.srv != nil && !c.srv.Closed && c.srv.Sess.GetConv() == conv {
					s.Fail("C11", "accept", "second-accept", "a second Accept for peer %s conv %d while its first session is still open", addr, conv)
				}
				srv := w.Adopt(fmt.Sprintf("s%d.%d", c.idx, c.gen), sess, c.ep, SessCfg{})
				if c.gen > 0 {
					srv.StaleFECRisk, srv.FECRecoveredAtStart = true, c.ep.FECRecoveredAtStart
				}
				c.srv = srv
				srv.In.Target = c.ep.Out.Target
				srv.Out.Target = int64(s.Tape.Skewed(ps, 0, 3000))
				if w.ReportCrossConv {
					srv.Out.Target = 5000 + int64(s.Tape.Choose(ps, 30000)) // keeps the old session transmitting
				}
				c.ep.In.Target = srv.Out.Target
				if pw.oob {
					name := srv.Name
					sess.SetOOBHandler(func(b []byte) {
						pw.mu.Lock()
						pw.oobGot = append(pw.oobGot, oobGot{name, append([]byte(nil), b...)})
						pw.mu.Unlock()
					})
				}
				srv.StartReader(pw.mode)
				srv.StartWriter(pw.mode)
				c.ep.StartReader(pw.mode)
				next()
			})
		})
	}
	next()
}

// inject delivers one foreign / stale / forged datagram.
func (pw *peersWorld) inject() {
	s, w := pw.s, pw.w
	t := s.Tape
	const ps = "peers"
	if len(pw.clients) == 0 || w.TearingDown {
		return
	}
	x := pw.clients[t.Choose(ps, len(pw.clients))]
	fec := w.FecD > 0 && w.FecP > 0
	kind := t.Choose(ps, 6)
	if w.ReportCrossConv && t.Chance(ps, 700) {
		kind = 5
	}
	switch kind {
	case 0:
		// a datagram of peer X delivered to the listener as if it came from peer Y
		y := pw.clients[t.Choose(ps, len(pw.clients))]
		if x == y || len(x.captured) < 2 || y.addr == "" || y.srv == nil {
			return // only towards an established session: otherwise the datagram IS a new peer
		}
		d := x.captured[1+t.Choose(ps, len(x.captured)-1)] // never the conversation's first datagram (sn 0)
		if pw.carriesSnZero(d) {
			return
		}
		s.L.Logf("inject: datagram of %s re-addressed as %s", x.addr, y.addr)
		s.Stats.Fault("readdressed-datagram")
		w.Net.Deliver(w.LConn.addrStr, y.addr, d, "inject")
	case 1:
		// a stale datagram of an earlier conversation of the same address
		if len(x.captured) < 2 || x.gen == 0 || x.srv == nil {
			return
		}
		d := x.captured[1+t.Choose(ps, len(x.captured)-1)]
		if pw.carriesSnZero(d) {
			return
		}
		s.L.Logf("inject: stale datagram from %s", x.addr)
		s.Stats.Fault("stale-datagram")
		w.Net.Deliver(w.LConn.addrStr, x.addr, d, "inject")
	case 2:
		// forged: peer's own address, different conversation, sn != 0
		if x.addr == "" || x.srv == nil {
			return
		}
		seg := make([]byte, 24+10)
		putSeg(seg, x.conv+7, 81, 0, 32, 1, 1+uint32(t.Choose(ps, 100)), 0, 10)
		payload := seg
		if fec {
			hdr := make([]byte, 8)
			binary.LittleEndian.PutUint32(hdr, 5)
			binary.LittleEndian.PutUint16(hdr[4:], wFecData)
			binary.LittleEndian.PutUint16(hdr[6:], uint16(len(seg)+2))
			payload = append(hdr, seg...)
		}
		nonce := make([]byte, 16)
		binary.LittleEndian.PutUint64(nonce, splitmixFrom(t, ps))
		s.L.Logf("inject: forged conv %d sn!=0 from %s", x.conv+7, x.addr)
		s.Stats.Fault("forged-other-conversation")
		w.Net.Deliver(w.LConn.addrStr, x.addr, w.Ref.Seal(nonce, payload), "inject")
	case 3:
		// a datagram from an address nobody uses: valid (captured) or noise
		h := 200 + t.Choose(ps, 4)
		from := MakeAddr(h, w.UDP).String()
		if t.Chance(ps, 500) && len(x.captured) > 1 {
			d := x.captured[t.Choose(ps, len(x.captured))]
			pw.forgedHosts[from] = true
			s.L.Logf("inject: captured datagram from unknown address %s", from)
			s.Stats.Fault("unknown-address-valid")
			w.Net.Deliver(w.LConn.addrStr, from, d, "inject")
		} else {
			n := t.Choose(ps, 200)
			d := make([]byte, n)
			xx := splitmixFrom(t, ps)
			for i := range d {
				d[i] = byte(splitmix(&xx))
			}
			if w.Ref.IsNull() && n >= 24 {
				pw.forgedHosts[from] = true // without a cipher noise may look like a packet
			}
			s.L.Logf("inject: %d bytes of noise from unknown address %s", n, from)
			s.Stats.Fault("unknown-address-noise")
			w.Net.Deliver(w.LConn.addrStr, from, d, "inject")
		}
	case 4:
		// a dialled session receives a datagram that does not come from its peer
		if x.ep == nil || x.ep.CloseInvoked || x.srv == nil {
			return
		}
		y := pw.clients[t.Choose(ps, len(pw.clients))]
		from := MakeAddr(210, w.UDP).String()
		if y != x && y.addr != "" && t.Chance(ps, 500) {
			from = y.addr
		}
		if t.Chance("peers-port", 400) {
			// the peer's own host, another port (a stream of its own: older tapes
			// keep their meaning)
			if ua, ok := w.LConn.addr.(*net.UDPAddr); ok {
				fa := &net.UDPAddr{IP: ua.IP, Port: ua.Port + 1 + t.Choose("peers-port", 3), Zone: ua.Zone}
				from = fa.String()
				if w.Net.ForeignAddrs == nil {
					w.Net.ForeignAddrs = map[string]net.Addr{}
				}
				w.Net.ForeignAddrs[from] = fa
			} else {
				from = w.LConn.addrStr + ":other-port"
			}
			s.Stats.Fault("peer-host-other-port-to-dialled")
		}
		// take something the listener sent to this client: valid for its conversation
		srvFlow := w.LConn.addrStr + ">" + x.addr
		_ = srvFlow
		if len(x.captured) == 0 {
			return
		}
		d := x.captured[t.Choose(ps, len(x.captured))]
		s.L.Logf("inject: datagram for dialled %s from foreign address %s", x.addr, from)
		s.Stats.Fault("foreign-source-to-dialled")
		w.Net.Deliver(x.addr, from, d, "inject")
	case 5:
		pw.reconnect(x)
	}
}

// reconnect: the client closes and comes back from the same address with a new
// conversation.
func (pw *peersWorld) reconnect(x *peerClient) {
	s, w := pw.s, pw.w
	t := s.Tape
	const ps = "peers"
	{
		if x.ep == nil || x.srv == nil || x.reconnectPending || x.gen >= 2+4*b2i(w.ReportCrossConv) {
			return
		}
		if x.srv.In.Read < x.srv.In.Target || !x.ep.WriterDone {
			return // only after its transfer has completed
		}
		s.L.Logf("inject: client %d closes and reconnects from %s with a new conversation", x.idx, x.addr)
		s.Stats.Fault("reconnect-same-address")
		x.ep.CloseInvoked = true
		x.ep.Sess.Close()
		x.ep.Closed = true
		x.ep.ReaderDone, x.ep.WriterDone = true, true
		// a reconnecting process has a new socket on the same address
		old := x.ep.Conn
		old.Close()
		delete(w.Net.conns, x.addr)
		x.gen++
		x.conv += 1
		x.reconnectPending = true
		x.target = int64(1 + t.Skewed(ps, 0, 10000))
		oldSrv := x.srv
		x.oldSrv = oldSrv
		// The new conversation starts only after every datagram of the old one has
		// left the network: a delayed duplicate of the old conversation's first
		// packet (sn 0) would itself "start a new conversation" - the protocol has
		// no handshake and the property allows that - and replace the new session.
		lc := pw.w.Links.Default
		drain := 3*time.Duration(lc.BaseUs+lc.JitterUs+lc.ReorderUs)*time.Microsecond + 10*time.Millisecond
		s.After(drain+time.Duration(1+t.Skewed(ps, 0, 500000))*time.Microsecond, "reconnect", func() {
			// the old server-side session is replaced when the new conversation starts
			oldSrv.ReaderDone, oldSrv.WriterDone = true, true
			oldSrv.ReplacedOK = true
			if pw.closeRace && pw.heldClose == nil && !oldSrv.CloseInvoked {
				oldSrv.CloseInvoked = true
				s.SetActive("close.afterdie", true)
				closer := s.NewActor(fmt.Sprintf("app-closer-%d.%d", x.idx, x.gen))
				sess := oldSrv.Sess
				s.L.Logf("the application closes %s while the peer's new conversation is on its way", oldSrv.Name)
				closer.Do("Close", func() any { return sess.Close() }, func(res any) {
					oldSrv.Closed = true
					s.L.Logf("ret  Close(%s) -> %v", oldSrv.Name, res)
				})
			}
			pw.connect(x)
		})
	}
}

func b2i(b bool) int {
	if b {
		return 1
	}
	return 0
}

func (pw *peersWorld) carriesSnZero(d []byte) bool {
	w := pw.w
	f, err := DecodeFrame(w.Ref, w.FecD > 0 && w.FecP > 0, d)
	if err != nil {
		return true
	}
	// The listener takes conv and sn from the FIRST segment of a datagram, whatever
	// its command: a datagram that begins with "ACK sn 0" counts as the start of a
	// conversation just like "PUSH sn 0". The injector only uses datagrams that
	// must be ignored, so it applies the same wire-level criterion.
	if len(f.Segs) > 0 && f.Segs[0].Sn == 0 {
		return true
	}
	return false
}

func (pw *peersWorld) invariants() {
	s := pw.s
	if pw.w.ReportCrossConv && !pw.w.TearingDown {
		// the finding's stratum: every client reconnects as soon as its upload is done
		for _, c := range pw.clients {
			if c.ep != nil && c.srv != nil && !c.reconnectPending && c.gen < 4 && c.ep.WriterDone && c.srv.In.Read >= c.srv.In.Target {
				pw.reconnect(c)
			}
		}
	}
	// a session must never fail or be closed by foreign traffic
	for _, c := range pw.clients {
		if c.srv != nil && c.srv.ReadErr != nil && !c.srv.ReplacedOK && !c.srv.CloseInvoked && !pw.w.TearingDown {
			s.Fail("C11", "isolation", "session-failed", "server session of peer %s: Read failed with %v although neither side closed it", c.addr, c.srv.ReadErr)
		}
		if c.ep != nil && c.ep.ReadErr != nil && !c.ep.CloseInvoked && !pw.w.TearingDown {
			s.Fail("C11", "isolation", "client-failed", "client %s: Read failed with %v", c.addr, c.ep.ReadErr)
		}
	}
	if pw.oob {
		pw.mu.Lock()
		got := pw.oobGot
		pw.oobGot = nil
		pw.mu.Unlock()
		for _, g := range got {
			s.Stats.Probe("oob-handler-invoked")
			if len(g.data) < 8 {
				s.Fail("C19", "intact", "short", "%s: OOB handler received %d bytes", g.ep, len(g.data))
				continue
			}
			tag := binary.LittleEndian.Uint64(g.data)
			owner := int(tag>>40) - 1
			var exp string
			if owner >= 0 && owner < len(pw.clients) {
				c := pw.clients[owner]
				if !c.oobTags[tag] {
					owner = -1
				}
				for gen := 0; gen <= c.gen; gen++ {
					if g.ep == fmt.Sprintf("s%d.%d", owner, gen) {
						exp = g.ep
					}
				}
			}
			if owner < 0 {
				s.Fail("C19", "intact", "unknown-payload", "%s: OOB handler received a payload (tag %x) nobody sent", g.ep, tag)
			} else if exp == "" {
				s.Fail("C19", "isolation", "delivered-to-other-session", "OOB payload sent by client %d reached the handler of session %s", owner, g.ep)
			} else if string(g.data) != string(oobPayload(tag, len(g.data))) {
				s.Fail("C19", "intact", "payload-altered", "%s: OOB payload %x altered", g.ep, tag)
			}
		}
	}
}

func init() {
	Register("peers", false, scenPeers)
}
