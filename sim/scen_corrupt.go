package sim

import (
	"encoding/binary"
	"fmt"
	"testing/synctest"
	"time"

	kcp "github.com/xtaci/kcp-go/v5"
)

// C06: packets failing the integrity check have no effect at all.
//
// Scenario "corrupt" (Mode S, every cipher except nil, listener and dialled
// paths): during ordinary faulty traffic, at seeded quiescent points, the driver
// (1) takes a deep reflection snapshot of every session and of the listener plus
// the SNMP counters, (2) injects ONE datagram that is guaranteed to fail the
// check, without advancing the clock, (3) waits for quiescence, (4) snapshots
// again. Everything must be identical except the checksum-error counter.

func (w *World) snapAll() map[string]snapshot {
	out := map[string]snapshot{}
	for _, ep := range w.Eps {
		if ep.Closed || ep.CloseInvoked {
			continue
		}
		out["session "+ep.Name] = Snap(ep.Name, ep.Sess)
	}
	if w.L != nil {
		out["listener"] = Snap("listener", w.L)
	}
	return out
}

func snmpMap(s *kcp.Snmp) map[string]string {
	m := map[string]string{}
	h, v := s.Header(), s.ToSlice()
	for i := range h {
		m[h[i]] = v[i]
	}
	return m
}

func scenCorrupt(r *Run) {
	s := r.S
	t := s.Tape
	const cs, cr = "cfg", "corrupt"
	o := DrawXferOpt(t, r.Spec.Tier)
	if o.World.Cipher == "null" {
		o.World.Cipher = CipherNames[1+t.Choose(cs, len(CipherNames)-1)]
		o.growTinyMTU(28) // the MTU classes were drawn for no cipher overhead
	}
	o.CfgA.RateLimit, o.CfgB.RateLimit = 0, 0
	if o.BytesAB < 20000 {
		o.BytesAB += 20000
	}
	x := NewXfer(r, o)
	w := x.W
	// ring of recent genuine datagrams per destination conn
	recent := map[string][][]byte{}
	kinds := map[string][]string{}
	base := s.OnEmit
	s.OnEmit = func(p *OutPkt) {
		base(p)
		if p.Frame == nil || p.Post {
			return
		}
		q := append(recent[p.Dst], append([]byte(nil), p.Data...))
		k := append(kinds[p.Dst], p.Frame.Kind())
		if len(q) > 24 {
			q, k = q[1:], k[1:]
		}
		recent[p.Dst], kinds[p.Dst] = q, k
	}
	nInj := 5 + t.Skewed(cr, 0, 150)
	done := 0
	at := time.Duration(0)
	injected := 0
	for i := 0; i < nInj; i++ {
		at += time.Duration(t.Skewed(cr, 0, 200000)) * time.Microsecond
		if i == 0 && t.Chance("corrupt-src", 500) {
			at = 0 // before anything genuine has arrived anywhere
		}
		s.At(at+time.Duration(i), "corrupt", func() {
			done++
			if w.TearingDown || s.Viol != nil {
				return
			}
			// target conn and claimed source
			var to *SimConn
			from := ""
			peerOf := "" // dialled target: the address of its real peer
			switch {
			case w.LConn != nil && t.Chance(cr, 500):
				to = w.LConn
				from = x.A.Local
				if t.Chance(cr, 300) {
					from = MakeAddr(250+t.Choose(cr, 3), w.UDP).String() // unknown source: no session may appear
				}
			case t.Chance(cr, 500) || x.B == nil || x.B.Conn == w.LConn:
				to = x.A.Conn
				from = x.A.Remote
				peerOf = x.A.Remote
			default:
				to = x.B.Conn
				from = x.B.Remote
				peerOf = x.B.Remote
			}
			if peerOf != "" && t.Chance("corrupt-src", 300) {
				// a stranger's datagram at a dialled session (a tape stream of its own)
				from = MakeAddr(240+t.Choose("corrupt-src", 3), w.UDP).String()
				s.Stats.Probe("corrupted-from-foreign-source")
			}
			if to.IsClosed() {
				return
			}
			// the corrupted datagram
			var d []byte
			kind := "noise"
			q := recent[to.addrStr]
			choice := t.Choose(cr, 8)
			if len(q) == 0 && choice < 6 {
				choice = 6
			}
			rc := w.Ref
			switch choice {
			case 0, 1, 2, 3:
				k := t.Choose(cr, len(q))
				g := q[k]
				kind = kinds[to.addrStr][k]
				if rc.IsAEAD() {
					// any change of nonce, ciphertext or tag
					d = append([]byte(nil), g...)
					n := 1 + t.Choose(cr, 4)
					for j := 0; j < n; j++ {
						d[t.Choose(cr, len(d))] ^= byte(1 << t.Choose(cr, 8))
					}
					kind += "/aead-bitflips"
				} else {
					// decrypt with the harness's own cipher, apply an error burst of at
					// most 32 bits inside the CRC-covered bytes, re-encrypt
					pt := rc.Plain(g)
					if len(pt) <= 20 {
						return
					}
					covered := pt[20:]
					bitLen := len(covered) * 8
					burst := 1 + t.Choose(cr, 32)
					if burst > bitLen {
						burst = bitLen
					}
					start := t.Choose(cr, bitLen-burst+1)
					// a burst: first and last bit flipped, bits in between at random
					flip := func(bit int) { covered[bit/8] ^= 1 << (bit % 8) }
					flip(start)
					if burst > 1 {
						flip(start + burst - 1)
					}
					for b := start + 1; b < start+burst-1; b++ {
						if t.Chance(cr, 500) {
							flip(b)
						}
					}
					d = rc.SealRaw(pt)
					kind += fmt.Sprintf("/burst-%dbits", burst)
				}
			case 4:
				// the stored CRC / tag changed
				k := t.Choose(cr, len(q))
				g := q[k]
				kind = kinds[to.addrStr][k] + "/check-field"
				if rc.IsAEAD() {
					d = append([]byte(nil), g...)
					d[len(d)-1-t.Choose(cr, 16)] ^= byte(1 + t.Choose(cr, 255))
				} else {
					pt := rc.Plain(g)
					if len(pt) < 20 {
						return
					}
					v := binary.LittleEndian.Uint32(pt[16:]) ^ uint32(1+t.Choose(cr, 1<<30))
					binary.LittleEndian.PutUint32(pt[16:], v)
					d = rc.SealRaw(pt)
				}
			case 5:
				// truncation (AEAD: always detected; CRC: the harness verifies below)
				k := t.Choose(cr, len(q))
				g := q[k]
				kind = kinds[to.addrStr][k] + "/truncated"
				d = append([]byte(nil), g[:t.Choose(cr, len(g))]...)
			case 6:
				// shorter than the header
				d = make([]byte, t.Choose(cr, rc.HeaderSize()))
				xx := splitmixFrom(t, cr)
				for j := range d {
					d[j] = byte(splitmix(&xx))
				}
				kind = "short"
			default:
				d = make([]byte, 20+t.Choose(cr, 1400))
				xx := splitmixFrom(t, cr)
				for j := range d {
					d[j] = byte(splitmix(&xx))
				}
			}
			// the harness's own decoder must agree that the check fails (a random
			// string passes a CRC with probability 2^-32; such a sample is discarded)
			if _, _, ok, _ := rc.Open(d); ok {
				s.Stats.Probe("sample-discarded-passes-check")
				return
			}
			counted := len(d) >= rc.Overhead()
			if !rc.IsAEAD() {
				counted = len(d) >= 20
			}
			before := w.snapAll()
			sn0 := snmpMap(kcp.DefaultSnmp.Copy())
			sent0 := 0
			for _, c := range w.Net.list {
				sent0 += c.Sent
			}
			s.mu.Lock()
			out0 := len(s.outbox)
			done0 := len(s.done)
			s.mu.Unlock()
			backlog0 := 0
			if w.L != nil {
				backlog0, _ = w.L.VerifBacklog()
			}
			s.L.Logf("inject corrupted %s (%d bytes) into %s as from %s", kind, len(d), to.addrStr, from)
			s.Stats.Fault("corrupted:" + corruptClass(kind))
			injected++
			Mark("no-effect/crash-on-datagram-failing-the-check")
			w.Net.Deliver(to.addrStr, from, d, "corrupt")
			synctest.Wait()
			Mark("")
			after := w.snapAll()
			sn1 := snmpMap(kcp.DefaultSnmp.Copy())
			for name, a := range before {
				b, ok := after[name]
				if !ok {
					s.Fail("C06", "no-effect", "object-vanished", "%s disappeared after a corrupted datagram (%s)", name, kind)
					return
				}
				if path, differs := a.Diff(b); differs {
					s.Fail("C06", "no-effect", "state-changed", "a datagram failing the integrity check (%s, %d bytes, to %s) changed %s at %s", kind, len(d), to.addrStr, name, path)
					return
				}
			}
			for name := range after {
				if _, ok := before[name]; !ok {
					s.Fail("C06", "no-effect", "object-appeared", "%s appeared after a corrupted datagram (%s)", name, kind)
					return
				}
			}
			foreign := peerOf != "" && from != peerOf
			for k, v0 := range sn0 {
				v1 := sn1[k]
				if foreign && (k == "InErrs" || k == "InCsumErrors") {
					// a dialled session drops a stranger's datagram at its source filter,
					// before the integrity check: it may count it as an input error
					// instead of (or as well as) a checksum error
					continue
				}
				if k == "InCsumErrors" {
					exp := v0
					if counted {
						var n uint64
						fmt.Sscan(v0, &n)
						exp = fmt.Sprint(n + 1)
					}
					if v1 != exp {
						s.Fail("C06", "counter", "csum-error-counter", "InCsumErrors went from %s to %s after a corrupted datagram of %d bytes (%s); expected %s", v0, v1, len(d), kind, exp)
						return
					}
					continue
				}
				if v0 != v1 {
					s.Fail("C06", "no-effect", "counter-changed", "counter %s went from %s to %s after a datagram failing the integrity check (%s)", k, v0, v1, kind)
					return
				}
			}
			s.mu.Lock()
			out1, done1 := len(s.outbox), len(s.done)
			s.mu.Unlock()
			if out1 != out0 {
				s.Fail("C06", "no-effect", "datagram-emitted", "%d datagram(s) emitted in response to a datagram failing the integrity check (%s)", out1-out0, kind)
				return
			}
			if done1 != done0 {
				s.Fail("C06", "no-effect", "call-returned", "an application call returned because of a datagram failing the integrity check (%s)", kind)
				return
			}
			if w.L != nil {
				if b1, _ := w.L.VerifBacklog(); b1 != backlog0 {
					s.Fail("C06", "no-effect", "session-created", "the accept backlog went from %d to %d after a corrupted datagram (%s)", backlog0, b1, kind)
				}
			}
			// ... and the session still hears its peer: a copy of a genuine datagram
			// (a network duplicate, harmless) from the real peer's address is counted
			// as received (the counter sits behind the source filter and the gate)
			if s.Viol == nil && peerOf != "" && len(q) > 0 && !to.IsClosed() {
				g := q[len(q)-1]
				in0 := kcp.DefaultSnmp.Copy().InPkts
				s.L.Logf("probe: duplicate of a genuine datagram (%d bytes) into %s from its peer %s", len(g), to.addrStr, peerOf)
				w.Net.Deliver(to.addrStr, peerOf, g, "probe")
				synctest.Wait()
				if in1 := kcp.DefaultSnmp.Copy().InPkts; in1 != in0+1 && !to.IsClosed() {
					s.Fail("C06", "no-effect", "session-deaf-after-corrupted-datagram", "after a datagram failing the integrity check (%s, from %s) a genuine datagram from the session's peer %s is no longer taken in by %s (received-packet counter %d -> %d)", kind, from, peerOf, to.addrStr, in0, in1)
				}
				s.Stats.Probe("hears-peer-probe")
			}
		})
	}
	s.Run(func() bool { return x.Done() && done >= nInj })
	s.Stats.ProbeN("corrupted-datagrams-injected", injected)
	x.Finish()
}

func corruptClass(kind string) string {
	for i := 0; i < len(kind); i++ {
		if kind[i] == '/' {
			k := kind[i+1:]
			for j := 0; j < len(k); j++ {
				if k[j] == '-' {
					return kind[:i] + "/" + k[:j]
				}
			}
			return kind
		}
	}
	return kind
}

func init() {
	Register("corrupt", false, scenCorrupt)
}
