package sim

import (
	"container/heap"
	"fmt"
	"os"
	"runtime"
	"sort"
	"strings"
	"sync"
	"testing/synctest"
	"time"
)

// Stats are the counters a run maintains about itself. Everything here is
// measured, nothing is configured.
type Stats struct {
	Faults map[string]int `json:"faults"` // fault kind -> times it FIRED
	Probes map[string]int `json:"probes"` // reach probes
}

func NewStats() *Stats { return &Stats{Faults: map[string]int{}, Probes: map[string]int{}} }

func (st *Stats) Fault(k string)         { st.Faults[k]++ }
func (st *Stats) Probe(k string)         { st.Probes[k]++ }
func (st *Stats) ProbeN(k string, n int) { st.Probes[k] += n }

type event struct {
	at   time.Duration
	seq  uint64
	kind string
	run  func()
}

type evHeap []*event

func (h evHeap) Len() int { return len(h) }
func (h evHeap) Less(i, j int) bool {
	if h[i].at != h[j].at {
		return h[i].at < h[j].at
	}
	return h[i].seq < h[j].seq
}
func (h evHeap) Swap(i, j int) { h[i], h[j] = h[j], h[i] }
func (h *evHeap) Push(x any)   { *h = append(*h, x.(*event)) }
func (h *evHeap) Pop() any {
	old := *h
	n := len(old)
	x := old[n-1]
	old[n-1] = nil
	*h = old[:n-1]
	return x
}

// Sim is the simulator kernel: a discrete-event heap ordered by (virtual time,
// sequence number), the decision tape, the event log, the outbox every
// simulated conn appends to, and the completion list of application actors.
//
// In session mode (Solo=false) the driver goroutine that calls Run is the only
// goroutine that makes decisions; it releases exactly one stimulus between two
// synctest.Wait calls. In solo mode (Solo=true) there are no other goroutines
// and Wait is skipped.
type Sim struct {
	Tape  *Tape
	L     *EvLog
	Stats *Stats
	Solo  bool

	epoch  time.Time
	heap   evHeap
	seq    uint64
	resSeq uint64
	poke   chan struct{}

	mu      sync.Mutex
	outbox  []*OutPkt
	done    []*completion
	parked  []*parkedG
	nParked int // goroutines currently parked at a yield point (guarded by mu)

	Steps      int
	MaxSteps   int
	MaxVirtual time.Duration
	IdleTick   time.Duration
	CapHit     string

	Viol *Violation
	// Target is the property this run decides. Violations of other properties
	// seen by always-on oracles are counted in Foreign and do not end the run;
	// that property's own check runs the same scenarios and reports them.
	Target string
	// Alias maps the property of a shared oracle to the property whose statement
	// includes it in this scenario.
	Alias map[string]string
	// PanicProp is the property a library panic on the driver goroutine (solo
	// mode) or inside an actor's call is attributed to; "" = harness trouble.
	PanicProp string
	Foreign   map[string]int

	// OnEmit is called (driver goroutine, quiescent) for every datagram handed
	// to a simulated conn, in sorted order, before its fate is decided.
	OnEmit func(p *OutPkt)
	// BeforeStep runs on the driver before every released stimulus.
	BeforeStep func()
	// DoneKey, if set, orders the completions processed in one drain.
	DoneKey func(a *Actor, res any) string
	// IsPost reports whether a datagram was emitted after Close of its session.
	IsPost func(p *OutPkt) bool
	visIdx map[string]int
	// Fate decides what happens to an emitted datagram.
	Fate func(p *OutPkt) []Delivery
	// Invariants run at every quiescence.
	Invariants []func()
	// OnDrain runs after outbox+completions were processed, before invariants.
	OnDrain func()

	actors []*Actor
	// SiteHits counts how often each yield site was passed (guarded by mu).
	SiteHits   map[string]int
	goids      map[uint64]string
	driverGoid uint64
	Yield      *YieldCtl
}

func NewSim(tape *Tape, solo bool) *Sim {
	s := &Sim{Tape: tape, Stats: NewStats(), Solo: solo}
	s.epoch = time.Now()
	s.L = NewEvLog(s.Now)
	s.poke = make(chan struct{}, 1)
	s.MaxSteps = 200000
	s.MaxVirtual = 30 * time.Minute
	s.IdleTick = 50 * time.Millisecond
	s.goids = map[uint64]string{}
	s.driverGoid = goid()
	s.SiteHits = map[string]int{}
	return s
}

// Now is the virtual time since the start of the run.
func (s *Sim) Now() time.Duration { return time.Since(s.epoch) }

// Epoch is the wall-clock value of virtual time zero.
func (s *Sim) Epoch() time.Time { return s.epoch }

// Fail records the first violation of the run.
func (s *Sim) Fail(prop, oracle, class, format string, args ...any) {
	if s.Viol != nil {
		return
	}
	if os.Getenv("VERIF_STACKDBG") != "" {
		buf := make([]byte, 1<<20)
		n := runtime.Stack(buf, true)
		fmt.Fprintf(os.Stderr, "STACKDBG at %s/%s/%s\n%s\n", prop, oracle, class, buf[:n])
	}
	if a, ok := s.Alias[prop]; ok {
		// this run uses the oracle of another property as part of its own
		// statement (e.g. "the stream stays intact" inside C16)
		oracle = prop + "-" + oracle
		prop = a
	}
	if s.Target != "" && prop != s.Target {
		if s.Foreign == nil {
			s.Foreign = map[string]int{}
		}
		sig := prop + "/" + oracle + "/" + class
		if s.Foreign[sig] == 0 {
			s.L.Notef("foreign violation %s: %s", sig, fmt.Sprintf(format, args...))
		}
		s.Foreign[sig]++
		return
	}
	s.Viol = &Violation{Prop: prop, Oracle: oracle, Detail: fmt.Sprintf(format, args...), Sig: prop + "/" + oracle + "/" + class}
	s.L.Logf("VIOLATION %s: %s", s.Viol.Sig, s.Viol.Detail)
}

// residue spreads harness-chosen instants over sub-microsecond offsets so that
// they do not coincide with each other or with the library's millisecond-grid
// timers.
func (s *Sim) residue() time.Duration { return time.Duration(101 + (s.resSeq*37)%797) }

// At schedules f at absolute virtual time at (never in the past).
func (s *Sim) At(at time.Duration, kind string, f func()) {
	s.seq++
	now := s.Now()
	if at < now {
		at = now
	}
	heap.Push(&s.heap, &event{at: at, seq: s.seq, kind: kind, run: f})
}

// After schedules f after d, with a unique sub-microsecond residue added.
func (s *Sim) After(d time.Duration, kind string, f func()) {
	s.seq++
	// the residue sequence advances only here: events scheduled with At (such as
	// the release of a goroutine parked after a wake-up, whose number can depend
	// on a runtime choice between a stale token and an expired timer) must not
	// shift the instants of anything else
	s.resSeq++
	heap.Push(&s.heap, &event{at: s.Now() + d + s.residue(), seq: s.seq, kind: kind, run: f})
}

// Pending is the number of scheduled harness events.
func (s *Sim) Pending() int { return len(s.heap) }

func (s *Sim) pokeDriver() {
	select {
	case s.poke <- struct{}{}:
	default:
	}
}

// waitUntil blocks the driver until virtual time at or until some goroutine
// pokes it; it reports whether it was poked.
func (s *Sim) waitUntil(at time.Duration) bool {
	d := at - s.Now()
	if s.Solo {
		if d > 0 {
			time.Sleep(d)
		}
		return false
	}
	if d <= 0 {
		select {
		case <-s.poke:
			return true
		default:
			return false
		}
	}
	tm := time.NewTimer(d)
	select {
	case <-tm.C:
		return false
	case <-s.poke:
		tm.Stop()
		return true
	}
}

func (s *Sim) quiesce() {
	if !s.Solo {
		synctest.Wait()
	}
	s.drain()
	if s.OnDrain != nil {
		s.OnDrain()
	}
	for _, inv := range s.Invariants {
		if s.Viol != nil {
			return
		}
		inv()
	}
}

// Run drives the simulation until finished() reports true at a quiescent point,
// a violation is recorded, or a cap is hit.
func (s *Sim) Run(finished func() bool) {
	for {
		s.quiesce()
		if s.Viol != nil || finished() {
			return
		}
		if s.Steps >= s.MaxSteps {
			s.CapHit = "steps"
			return
		}
		if s.Now() >= s.MaxVirtual {
			s.CapHit = "virtual-time"
			return
		}
		var at time.Duration
		if len(s.heap) > 0 {
			at = s.heap[0].at
		} else {
			at = s.Now() + s.IdleTick
		}
		if s.waitUntil(at) {
			continue // library activity or an actor completion came first
		}
		if len(s.heap) == 0 || s.heap[0].at > s.Now() {
			continue // idle tick
		}
		// The driver's timer fired. Library timers due at the same instant may
		// be running: let them settle before releasing the stimulus.
		if !s.Solo {
			s.quiesce()
			if s.Viol != nil {
				return
			}
		}
		ev := heap.Pop(&s.heap).(*event)
		s.Steps++
		if !strings.HasPrefix(ev.kind, "wake:") {
			s.L.Shape(ev.kind)
		}
		if s.BeforeStep != nil {
			s.BeforeStep()
		}
		ev.run()
	}
}

// Settle advances virtual time by d while processing whatever the library does
// (used for grace periods); harness events that become due are executed.
func (s *Sim) Settle(d time.Duration) {
	end := s.Now() + d
	saveSteps, saveCap := s.MaxSteps, s.CapHit
	s.MaxSteps = 1 << 60 // settling is not part of the workload's step budget
	defer func() { s.MaxSteps = saveSteps; s.CapHit = saveCap }()
	save, saveTick := s.MaxVirtual, s.IdleTick
	if s.MaxVirtual < end+time.Second {
		s.MaxVirtual = end + time.Second
	}
	if d > 10*time.Second {
		s.IdleTick = d / 16
	}
	s.At(end, "settle-end", func() {})
	s.Run(func() bool { return s.Now() >= end })
	s.MaxVirtual, s.IdleTick = save, saveTick
}

// ---------------------------------------------------------------------------
// outbox
// ---------------------------------------------------------------------------

// OutPkt is a datagram handed to a simulated conn by the library.
type OutPkt struct {
	At      time.Duration
	Src     *SimConn
	Dst     string
	Idx     int // index within the (src,dst) flow (datagrams emitted after Close do not count)
	arrival int // order of arrival at the conn within the flow (sorting only)
	Data    []byte
	Frame   *Frame // filled by the scenario's OnEmit when it decodes the datagram
	Post    bool   // emitted after the sending session's Close was invoked
}

// Delivery is one copy of a datagram to be delivered after Delay.
type Delivery struct {
	Delay time.Duration
	AtAbs time.Duration // if non-zero: absolute delivery instant (FIFO links)
	Data  []byte        // nil = the original bytes
	From  string        // "" = the real source
	To    string        // "" = the original destination
}

func (s *Sim) emit(p *OutPkt) {
	s.mu.Lock()
	p.arrival = p.Src.flowIdx[p.Dst]
	p.Src.flowIdx[p.Dst]++
	s.outbox = append(s.outbox, p)
	s.mu.Unlock()
	s.pokeDriver()
}

func (s *Sim) drain() {
	for {
		s.mu.Lock()
		out := s.outbox
		s.outbox = nil
		done := s.done
		s.done = nil
		s.mu.Unlock()
		if len(out) == 0 && len(done) == 0 {
			return
		}
		sort.SliceStable(out, func(i, j int) bool {
			a, b := out[i], out[j]
			if a.At != b.At {
				return a.At < b.At
			}
			if a.Src.id != b.Src.id {
				return a.Src.id < b.Src.id
			}
			if a.Dst != b.Dst {
				return a.Dst < b.Dst
			}
			return a.arrival < b.arrival
		})
		for _, p := range out {
			// Datagrams a session emits after its own Close was invoked exist or not
			// by an unseedable runtime choice (select with two ready cases): they get
			// no visible index, so that they cannot shift the numbering of anything
			// that follows on the same flow.
			if s.IsPost != nil && s.IsPost(p) {
				p.Post = true
				p.Idx = -1
			} else {
				if s.visIdx == nil {
					s.visIdx = map[string]int{}
				}
				k := p.Src.addrStr + ">" + p.Dst
				p.Idx = s.visIdx[k]
				s.visIdx[k]++
			}
			if s.OnEmit != nil {
				s.OnEmit(p)
			}
			var ds []Delivery
			if s.Fate != nil {
				ds = s.Fate(p)
			} else {
				ds = []Delivery{{Delay: time.Microsecond}}
			}
			for _, d := range ds {
				s.scheduleDelivery(p, d)
			}
		}
		sort.SliceStable(done, func(i, j int) bool {
			if s.DoneKey != nil {
				// interchangeable actors: order completions by what they returned, not by
				// which goroutine the runtime happened to serve
				if ki, kj := s.DoneKey(done[i].actor, done[i].res), s.DoneKey(done[j].actor, done[j].res); ki != kj {
					return ki < kj
				}
			}
			return done[i].actor.ID < done[j].actor.ID
		})
		for _, c := range done {
			c.actor.busy = false
			c.actor.Calls++
			if c.fn != nil {
				c.fn(c.res)
			}
		}
	}
}

func (s *Sim) scheduleDelivery(p *OutPkt, d Delivery) {
	data := d.Data
	if data == nil {
		data = p.Data
	}
	from := d.From
	if from == "" {
		from = p.Src.addrStr
	}
	to := d.To
	if to == "" {
		to = p.Dst
	}
	net := p.Src.net
	delay := d.Delay
	if delay < time.Microsecond {
		delay = time.Microsecond
	}
	label := fmt.Sprintf("%s>%s#%d", p.Src.addrStr, p.Dst, p.Idx)
	if d.AtAbs > 0 {
		s.At(d.AtAbs, "deliver>"+to, func() { net.Deliver(to, from, data, label) })
		return
	}
	s.After(delay, "deliver>"+to, func() { net.Deliver(to, from, data, label) })
}

// ---------------------------------------------------------------------------
// actors
// ---------------------------------------------------------------------------

// Actor is an application goroutine. The driver hands it one call at a time;
// the call may block inside the library. Decisions about what to call are made
// by the driver, never by the actor.
type Actor struct {
	ID    int
	Name  string
	s     *Sim
	cmd   chan func()
	busy  bool
	Calls int

	// bookkeeping of the outstanding call (for blocking oracles)
	CallLabel  string
	CallStart  time.Duration
	CallSerial int
}

type completion struct {
	actor *Actor
	res   any
	fn    func(res any)
}

// NewActor starts an actor goroutine inside the bubble.
func (s *Sim) NewActor(name string) *Actor {
	a := &Actor{ID: len(s.actors), Name: name, s: s, cmd: make(chan func(), 1)}
	s.actors = append(s.actors, a)
	ready := make(chan uint64)
	cmd := a.cmd
	go func() {
		ready <- goid()
		for f := range cmd {
			f()
		}
	}()
	id := <-ready
	s.mu.Lock()
	s.goids[id] = name
	s.mu.Unlock()
	return a
}

// Busy reports whether the actor has an outstanding call.
func (a *Actor) Busy() bool { return a.busy }

// Do makes the actor perform call (which may block inside the library); when it
// returns, onDone runs on the driver goroutine at the next quiescence. A panic
// inside the call is reported as PanicResult.
func (a *Actor) Do(label string, call func() any, onDone func(res any)) {
	if a.busy {
		panic("harness: actor " + a.Name + " already busy with " + a.CallLabel)
	}
	a.busy = true
	a.CallLabel = label
	a.CallStart = a.s.Now()
	a.CallSerial++
	s := a.s
	a.cmd <- func() {
		var res any
		func() {
			defer func() {
				if r := recover(); r != nil {
					res = PanicResult{Value: fmt.Sprint(r), Stack: shortStack()}
				}
			}()
			res = call()
		}()
		s.mu.Lock()
		s.done = append(s.done, &completion{actor: a, res: res, fn: onDone})
		s.mu.Unlock()
		s.pokeDriver()
	}
}

// StopActors ends all actor goroutines that are not inside a call.
func (s *Sim) StopActors() {
	for _, a := range s.actors {
		if a.cmd != nil {
			close(a.cmd)
			a.cmd = nil
		}
	}
}

// PanicResult is the result of a call that panicked.
type PanicResult struct {
	Value string
	Stack string
}

func shortStack() string {
	buf := make([]byte, 8192)
	n := runtime.Stack(buf, false)
	lines := strings.Split(string(buf[:n]), "\n")
	var keep []string
	for _, l := range lines {
		if strings.Contains(l, "kcp-go") || strings.Contains(l, "/repo/") || strings.Contains(l, "verifsim") {
			keep = append(keep, strings.TrimSpace(l))
		}
		if len(keep) >= 16 {
			break
		}
	}
	return strings.Join(keep, " | ")
}

func goid() uint64 {
	var buf [64]byte
	n := runtime.Stack(buf[:], false)
	// "goroutine 123 ["
	var id uint64
	for i := len("goroutine "); i < n; i++ {
		c := buf[i]
		if c < '0' || c > '9' {
			break
		}
		id = id*10 + uint64(c-'0')
	}
	return id
}

// ---------------------------------------------------------------------------
// yield points
// ---------------------------------------------------------------------------

type parkedG struct {
	site  string
	who   string
	ch    chan struct{}
	since time.Duration
}

// YieldCtl decides which yield sites park. It is consulted from library
// goroutines, so it uses only immutable per-run data (armed set) and counters
// protected by the kernel mutex.
type YieldCtl struct {
	Armed map[string]bool
	Hits  map[string]int // site -> hits seen (under Sim.mu)
	// From/To: only hits in [From,To) of a site park.
	From, To map[string]int
	// Active, if non-nil, replaces the hit windows: the driver sets it before
	// every step (SetActive).
	Active map[string]bool
}

// yield is installed as kcp.VerifYield. An armed site parks the calling
// goroutine on a bubble channel (a durable block) until the driver releases it.
func (s *Sim) yield(site string) {
	y := s.Yield
	s.mu.Lock()
	s.SiteHits[site]++
	if y == nil || !y.Armed[site] {
		s.mu.Unlock()
		return
	}
	if y.Active != nil {
		// decided by the driver once per step: every hit of the site within one
		// cascade gets the same answer, whichever goroutine comes first
		if !y.Active[site] {
			s.mu.Unlock()
			return
		}
	} else {
		h := y.Hits[site]
		y.Hits[site] = h + 1
		if h < y.From[site] || h >= y.To[site] {
			s.mu.Unlock()
			return
		}
	}
	gid := goid()
	if gid == s.driverGoid {
		// library code called directly by the driver must never park
		s.mu.Unlock()
		return
	}
	who := s.goids[gid]
	p := &parkedG{site: site, who: who, ch: make(chan struct{}), since: s.Now()}
	s.parked = append(s.parked, p)
	s.nParked++
	s.mu.Unlock()
	s.pokeDriver()
	<-p.ch
}

// Release lets a parked goroutine continue.
func (s *Sim) Release(p *parkedG) {
	s.mu.Lock()
	s.nParked--
	s.mu.Unlock()
	close(p.ch)
}

// ParkedNow is the number of goroutines currently held at a yield point.
func (s *Sim) ParkedNow() int {
	s.mu.Lock()
	defer s.mu.Unlock()
	return s.nParked
}

// SetActive sets, for the coming step, which armed sites park.
func (s *Sim) SetActive(site string, on bool) {
	s.mu.Lock()
	s.Yield.Active[site] = on
	s.mu.Unlock()
}

// Hits returns how often a yield site has been passed so far.
func (s *Sim) Hits(site string) int {
	s.mu.Lock()
	defer s.mu.Unlock()
	return s.SiteHits[site]
}

// TakeParked returns the goroutines parked since the last call, sorted.
func (s *Sim) TakeParked() []*parkedG {
	s.mu.Lock()
	p := s.parked
	s.parked = nil
	s.mu.Unlock()
	sort.SliceStable(p, func(i, j int) bool {
		if p[i].site != p[j].site {
			return p[i].site < p[j].site
		}
		return p[i].who < p[j].who
	})
	return p
}
