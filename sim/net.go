package sim

import (
	"errors"
	"fmt"
	"net"
	"sync"
	"sync/atomic"
	"time"

	"golang.org/x/net/ipv4"
)

// Net is the simulated datagram network: a registry of simulated conns by
// address. Nothing is ever delivered synchronously; every datagram the library
// writes goes to the kernel's outbox and comes back as a heap event.
type Net struct {
	s     *Sim
	conns map[string]*SimConn
	list  []*SimConn
	// OnDeliver, if set, observes every datagram at the moment it is put into a
	// conn's inbox (driver goroutine).
	OnDeliver func(to *SimConn, from string, data []byte)
	// ForeignAddrs gives injected sources that are not conns of the simulated
	// network their net.Addr (e.g. the peer's IP with another port).
	ForeignAddrs map[string]net.Addr
	// FreeDeliver, if set, takes every emitted datagram instead of the kernel's
	// outbox (Mode R: free-running race mode).
	FreeDeliver func(p *OutPkt)
}

func NewNet(s *Sim) *Net { return &Net{s: s, conns: map[string]*SimConn{}} }

// simAddr is an opaque (non-UDP) net.Addr, used to exercise the string branch
// of the library's source filters.
type simAddr string

func (a simAddr) Network() string { return "sim" }
func (a simAddr) String() string  { return string(a) }

// MakeAddr builds the address of host h; udp selects *net.UDPAddr.
func MakeAddr(h int, udp bool) net.Addr {
	if udp {
		return &net.UDPAddr{IP: net.IPv4(10, 0, byte(h>>8), byte(h)), Port: 4000 + h}
	}
	return simAddr(fmt.Sprintf("sim-%d", h))
}

type inPkt struct {
	data []byte
	from net.Addr
}

var errConnClosed = errors.New("simconn: use of closed network connection")

// SimConn implements net.PacketConn (and, when UseBatch is set, the batch
// interface the Linux loops use) on top of the simulated network.
type SimConn struct {
	net     *Net
	id      int
	addr    net.Addr
	addrStr string

	inbox     chan inPkt
	closed    chan struct{}
	closeOnce sync.Once
	readErr   chan error
	writeErr  atomic.Value // error

	flowIdx map[string]int // guarded by Sim.mu

	UseBatch      bool
	BatchWriteMax int // WriteBatch accepts at most this many messages per call (0 = all)
	peerAddrs     map[string]net.Addr

	// Sink, if set, receives delivered datagrams directly on the driver goroutine
	// (solo mode: there is no reader goroutine).
	Sink func(from string, data []byte)

	WriteErrs    int32 // WriteTo calls failed with an injected error (atomic)
	Sent, Recv   int
	PostClose    func(dst string) bool // scenario: was this datagram emitted after Close of its session
	ReadBatchMax int
}

// NewConn registers a simulated conn at addr.
func (n *Net) NewConn(addr net.Addr) *SimConn {
	c := &SimConn{net: n, id: len(n.list), addr: addr, addrStr: addr.String(),
		inbox: make(chan inPkt, 1<<14), closed: make(chan struct{}), readErr: make(chan error, 1),
		flowIdx: map[string]int{}, peerAddrs: map[string]net.Addr{}}
	n.conns[c.addrStr] = c
	n.list = append(n.list, c)
	return c
}

// KnownAddr registers an address value to be presented as source for datagrams
// whose source string equals a.String() (so that the library sees the same
// concrete type the peer uses).
func (n *Net) KnownAddr(a net.Addr) {
	for _, c := range n.list {
		c.peerAddrs[a.String()] = a
	}
}

// Deliver puts a datagram into the inbox of the conn at address to.
func (n *Net) Deliver(to, from string, data []byte, label string) {
	c := n.conns[to]
	if c == nil {
		n.s.Stats.Fault("deliver-to-nowhere")
		return
	}
	select {
	case <-c.closed:
		n.s.Stats.Fault("deliver-to-closed")
		return
	default:
	}
	fa := c.peerAddrs[from]
	if fa == nil {
		if pc := n.conns[from]; pc != nil {
			fa = pc.addr
		} else if ua := n.ForeignAddrs[from]; ua != nil {
			fa = ua // an injected source with an address object of its own
		} else {
			fa = simAddr(from)
		}
	}
	if n.OnDeliver != nil {
		n.OnDeliver(c, from, data)
	}
	c.Recv++
	n.s.L.Logf("deliver %s<-%s len=%d pkt=%s", to, from, len(data), label)
	if c.Sink != nil {
		c.Sink(from, append([]byte(nil), data...))
		return
	}
	select {
	case c.inbox <- inPkt{data: append([]byte(nil), data...), from: fa}:
	default:
		n.s.Stats.Fault("inbox-overflow")
	}
}

// Push puts a datagram into the conn's inbox from any goroutine (Mode R).
func (c *SimConn) Push(from net.Addr, data []byte) {
	select {
	case <-c.closed:
		return
	default:
	}
	select {
	case c.inbox <- inPkt{data: data, from: from}:
	default:
	}
}

func (c *SimConn) Addr() net.Addr  { return c.addr }
func (c *SimConn) AddrStr() string { return c.addrStr }

// InjectReadError makes the next (or the blocked) ReadFrom return err.
func (c *SimConn) InjectReadError(err error) {
	select {
	case c.readErr <- err:
	default:
	}
}

// InjectWriteError makes every later WriteTo fail with err.
func (c *SimConn) InjectWriteError(err error) { c.writeErr.Store(err) }

func (c *SimConn) IsClosed() bool {
	select {
	case <-c.closed:
		return true
	default:
		return false
	}
}

func (c *SimConn) ReadFrom(b []byte) (int, net.Addr, error) {
	// deterministic priority: queued datagrams first, then error, then close
	select {
	case p := <-c.inbox:
		return copy(b, p.data), p.from, nil
	default:
	}
	select {
	case err := <-c.readErr:
		return 0, nil, err
	default:
	}
	select {
	case p := <-c.inbox:
		return copy(b, p.data), p.from, nil
	case err := <-c.readErr:
		return 0, nil, err
	case <-c.closed:
		return 0, nil, errConnClosed
	}
}

func (c *SimConn) WriteTo(b []byte, addr net.Addr) (int, error) {
	if err, ok := c.writeErr.Load().(error); ok && err != nil {
		atomic.AddInt32(&c.WriteErrs, 1)
		return 0, err
	}
	if c.IsClosed() {
		return 0, errConnClosed
	}
	s := c.net.s
	p := &OutPkt{At: s.Now(), Src: c, Dst: addr.String(), Data: append([]byte(nil), b...)}
	if f := c.net.FreeDeliver; f != nil {
		f(p) // free-running mode (C14): no driver, no outbox
		return len(b), nil
	}
	s.emit(p)
	return len(b), nil
}

func (c *SimConn) Close() error {
	err := errConnClosed
	c.closeOnce.Do(func() { close(c.closed); err = nil })
	return err
}

func (c *SimConn) LocalAddr() net.Addr                { return c.addr }
func (c *SimConn) SetDeadline(t time.Time) error      { return nil }
func (c *SimConn) SetReadDeadline(t time.Time) error  { return nil }
func (c *SimConn) SetWriteDeadline(t time.Time) error { return nil }
func (c *SimConn) SetReadBuffer(int) error            { return nil }
func (c *SimConn) SetWriteBuffer(int) error           { return nil }
func (c *SimConn) SetDSCP(int) error                  { return nil }

// VerifUseBatch makes the library take its Linux batch loops for this conn.
func (c *SimConn) VerifUseBatch() bool { return c.UseBatch }

// ReadBatch blocks for the first datagram and then takes whatever else is
// already queued, like recvmmsg.
func (c *SimConn) ReadBatch(ms []ipv4.Message, flags int) (int, error) {
	if len(ms) == 0 {
		return 0, nil
	}
	n, from, err := c.ReadFrom(ms[0].Buffers[0])
	if err != nil {
		return 0, err
	}
	ms[0].N, ms[0].Addr = n, from
	count := 1
	lim := len(ms)
	if c.ReadBatchMax > 0 && c.ReadBatchMax < lim {
		lim = c.ReadBatchMax
	}
	for count < lim {
		select {
		case p := <-c.inbox:
			ms[count].N = copy(ms[count].Buffers[0], p.data)
			ms[count].Addr = p.from
			count++
		default:
			return count, nil
		}
	}
	return count, nil
}

// WriteBatch accepts a prefix of the messages, like sendmmsg.
func (c *SimConn) WriteBatch(ms []ipv4.Message, flags int) (int, error) {
	n := len(ms)
	if c.BatchWriteMax > 0 && n > c.BatchWriteMax {
		n = c.BatchWriteMax
	}
	for i := 0; i < n; i++ {
		if _, err := c.WriteTo(ms[i].Buffers[0], ms[i].Addr); err != nil {
			if i == 0 {
				return 0, err
			}
			return i, nil
		}
	}
	return n, nil
}
