package sim

import (
	"time"
)

// Window is a half-open interval of virtual time.
type Window struct{ From, To time.Duration }

func (w Window) Has(t time.Duration) bool { return t >= w.From && t < w.To }

// LinkCfg is the fault model of one direction of one link.
type LinkCfg struct {
	BaseUs    int // minimum one-way delay, microseconds
	JitterUs  int // uniform extra delay
	LossPM    int // Bernoulli loss, per mille
	DupPM     int // duplication, per mille
	ReorderPM int // extra (long) delay, per mille
	ReorderUs int
	FIFO      bool
	Outages   []Window
	// Gilbert-Elliott burst loss: per-mille transition probabilities and loss in
	// the bad state.
	GEGoodBad, GEBadGood, GEBadLoss int
	geBad                           bool
}

// Links decides the fate of every datagram. All draws come from the stream
// "link/<src>><dst>", one stream per direction.
type Links struct {
	s       *Sim
	Default LinkCfg
	Per     map[string]*LinkCfg // key "src>dst"
	HealAt  time.Duration       // >0: from this instant on, no loss/dup/reorder/outage
	lastArr map[string]time.Duration
	// Filter, if set, is asked first; it returns (deliveries, true) to override.
	Filter func(p *OutPkt) ([]Delivery, bool)
}

func NewLinks(s *Sim) *Links {
	return &Links{s: s, Per: map[string]*LinkCfg{}, lastArr: map[string]time.Duration{}}
}

func (l *Links) cfgFor(key string) *LinkCfg {
	if c, ok := l.Per[key]; ok {
		return c
	}
	c := l.Default
	c.Outages = append([]Window(nil), l.Default.Outages...)
	l.Per[key] = &c
	return &c
}

// Healed reports whether faults have stopped.
func (l *Links) Healed() bool { return l.HealAt > 0 && l.s.Now() >= l.HealAt }

func (l *Links) Fate(p *OutPkt) []Delivery {
	s := l.s
	key := p.Src.addrStr + ">" + p.Dst
	if p.Post {
		// Emitted after Close of the sending session: whether it exists at all is
		// decided by an unseedable runtime choice (select with two ready cases), so
		// it gets a fixed fate and consumes no tape.
		s.Stats.Fault("post-close-drop")
		return nil
	}
	if l.Filter != nil {
		if ds, ok := l.Filter(p); ok {
			return ds
		}
	}
	c := l.cfgFor(key)
	stream := "link/" + key
	healed := l.Healed()
	if !healed {
		for _, w := range c.Outages {
			if w.Has(p.At) {
				s.Stats.Fault("outage-drop")
				s.L.Logf("fate %s#%d outage-drop", key, p.Idx)
				return nil
			}
		}
		if c.GEGoodBad > 0 {
			if c.geBad {
				if s.Tape.Chance(stream, c.GEBadGood) {
					c.geBad = false
				}
			} else if s.Tape.Chance(stream, c.GEGoodBad) {
				c.geBad = true
			}
			if c.geBad && s.Tape.Chance(stream, c.GEBadLoss) {
				s.Stats.Fault("burst-drop")
				s.L.Logf("fate %s#%d burst-drop", key, p.Idx)
				return nil
			}
		}
		if s.Tape.Chance(stream, c.LossPM) {
			s.Stats.Fault("drop")
			s.L.Logf("fate %s#%d drop", key, p.Idx)
			return nil
		}
	}
	delay := time.Duration(c.BaseUs+s.Tape.Range(stream, 0, c.JitterUs)) * time.Microsecond
	if !healed && s.Tape.Chance(stream, c.ReorderPM) {
		delay += time.Duration(s.Tape.Range(stream, 1, c.ReorderUs)) * time.Microsecond
		s.Stats.Fault("reorder-delay")
	}
	var abs time.Duration
	if c.FIFO {
		// absolute arrival instant, strictly increasing per direction
		abs = s.Now() + delay + s.residue()
		if last := l.lastArr[key]; abs <= last {
			abs = last + 53*time.Nanosecond
		}
		l.lastArr[key] = abs
	}
	ds := []Delivery{{Delay: delay, AtAbs: abs}}
	if !healed && s.Tape.Chance(stream, c.DupPM) {
		n := 1 + s.Tape.Choose(stream, 2)
		for i := 0; i < n; i++ {
			d2 := time.Duration(c.BaseUs+s.Tape.Range(stream, 0, c.JitterUs+c.ReorderUs)) * time.Microsecond
			ds = append(ds, Delivery{Delay: d2})
			s.Stats.Fault("duplicate")
		}
	}
	s.L.Logf("fate %s#%d deliver x%d delay=%v", key, p.Idx, len(ds), delay)
	return ds
}
