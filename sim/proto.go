package sim

import "verifsim/proto"

type (
	RunSpec   = proto.RunSpec
	RunResult = proto.RunResult
	Violation = proto.Violation
	Job       = proto.Job
)
