package sim

import (
	"fmt"
	"time"

	kcp "github.com/xtaci/kcp-go/v5"
)

// XferOpt parametrises the bidirectional transfer scenario that most
// session-level properties build on.
type XferOpt struct {
	Listen     bool // listener + dialled client (otherwise two dialled sessions)
	World      WorldOpt
	CfgA, CfgB SessCfg
	BytesAB    int64
	BytesBA    int64
	WModeA     IOMode
	WModeB     IOMode
	RModeA     IOMode
	RModeB     IOMode
	Link       LinkCfg
	HealAfter  time.Duration // >0: faults stop at this virtual time
	MaxVirtual time.Duration
	MaxSteps   int
	OwnConn    bool
	CloseOrder []int
	NoFaults   bool
}

var fecChoices = [][2]int{{0, 0}, {3, 1}, {1, 1}, {2, 2}, {10, 3}, {4, 1}, {1, 3}, {5, 5}, {16, 4}}

// DrawXferOpt draws the configuration swarm for a transfer run.
func DrawXferOpt(t *Tape, tier string) XferOpt {
	var o XferOpt
	const cs = "cfg"
	o.Listen = t.Chance(cs, 500)
	o.World.Cipher = Pick(t, cs, CipherNames)
	fc := Pick(t, cs, fecChoices)
	o.World.FecD, o.World.FecP = fc[0], fc[1]
	o.World.UDP = t.Chance(cs, 500)
	o.World.Batch = t.Chance(cs, 400)
	o.World.SchedWorkers = 1 + t.Choose(cs, 4)
	o.World.PoolSan = true
	rc, _ := NewRefCipher(o.World.Cipher, make([]byte, cipherKeyLen(o.World.Cipher)))
	over := rc.Overhead()
	if fc[0] > 0 {
		over += 8
	}
	o.CfgA = DrawSessCfg(t, cs, over)
	o.CfgB = DrawSessCfg(t, cs, over)
	mssOf := func(c SessCfg) int {
		m := 1400
		if c.MTU != 0 {
			m = min(c.MTU, 1500)
		}
		return max(1, m-over-24)
	}
	draw := func(mss int) int64 {
		maxSegs := 400
		if tier == "thorough" {
			maxSegs = 1500
		}
		lim := int64(mss) * int64(maxSegs)
		if lim > 1<<20 {
			lim = 1 << 20
		}
		return int64(t.Skewed(cs, 0, int(lim)))
	}
	o.BytesAB = draw(mssOf(o.CfgA))
	o.BytesBA = draw(mssOf(o.CfgB))
	if o.BytesAB == 0 && o.BytesBA == 0 {
		o.BytesAB = 1 + int64(t.Choose(cs, 5000))
	}
	if o.Listen && o.BytesAB == 0 {
		o.BytesAB = 1 // the server only learns about the client from its first datagram
	}
	mode := func() IOMode {
		m := IOMode{Kind: t.Choose(cs, 5)}
		if t.Chance(cs, 300) {
			m.PausePM = 50 + t.Choose(cs, 300)
			m.PauseUs = 1 + t.Skewed(cs, 0, 200000)
		}
		m.Buffers = t.Chance(cs, 250)
		return m
	}
	o.WModeA, o.WModeB, o.RModeA, o.RModeB = mode(), mode(), mode(), mode()
	// link
	o.Link.BaseUs = 50 + t.Skewed(cs, 0, 150000)
	o.Link.JitterUs = t.Skewed(cs, 0, 40000)
	if t.Chance(cs, 750) {
		o.Link.LossPM = t.Skewed(cs, 0, 400)
	}
	if t.Chance(cs, 500) {
		o.Link.DupPM = t.Skewed(cs, 0, 300)
	}
	if t.Chance(cs, 500) {
		o.Link.ReorderPM = t.Skewed(cs, 0, 400)
		o.Link.ReorderUs = 1 + t.Skewed(cs, 0, 400000)
	}
	if t.Chance(cs, 200) {
		o.Link.GEGoodBad = 10 + t.Choose(cs, 100)
		o.Link.GEBadGood = 50 + t.Choose(cs, 400)
		o.Link.GEBadLoss = 300 + t.Choose(cs, 700)
	}
	if t.Chance(cs, 200) {
		n := 1 + t.Choose(cs, 2)
		for i := 0; i < n; i++ {
			from := time.Duration(t.Skewed(cs, 0, 3000)) * time.Millisecond
			o.Link.Outages = append(o.Link.Outages, Window{from, from + time.Duration(1+t.Skewed(cs, 0, 3000))*time.Millisecond})
		}
	}
	o.OwnConn = t.Chance(cs, 300)
	for i := 0; i < 8; i++ {
		o.CloseOrder = append(o.CloseOrder, t.Choose(cs, 8))
	}
	o.MaxVirtual = 10 * time.Minute
	o.MaxSteps = 60000
	if tier == "thorough" {
		o.MaxSteps = 250000
	}
	return o
}

func (o XferOpt) String() string {
	return fmt.Sprintf("listen=%v cipher=%s fec=%d/%d udp=%v batch=%v workers=%d A{%s} B{%s} bytes=%d/%d link{base=%dus jit=%dus loss=%d dup=%d reorder=%d/%dus ge=%d/%d/%d outages=%v} heal=%v",
		o.Listen, o.World.Cipher, o.World.FecD, o.World.FecP, o.World.UDP, o.World.Batch, o.World.SchedWorkers, o.CfgA, o.CfgB, o.BytesAB, o.BytesBA,
		o.Link.BaseUs, o.Link.JitterUs, o.Link.LossPM, o.Link.DupPM, o.Link.ReorderPM, o.Link.ReorderUs, o.Link.GEGoodBad, o.Link.GEBadGood, o.Link.GEBadLoss, o.Link.Outages, o.HealAfter)
}

// Xfer is a running transfer scenario.
type Xfer struct {
	R        *Run
	S        *Sim
	W        *World
	Opt      XferOpt
	A, B     *Endpoint
	acceptor *Actor
	// OnAccept runs when the server-side endpoint exists.
	OnAccept func(b *Endpoint)
}

// NewXfer builds the world and starts the actors.
func NewXfer(r *Run, o XferOpt) *Xfer {
	s := r.S
	x := &Xfer{R: r, S: s, Opt: o}
	s.MaxVirtual = o.MaxVirtual
	if r.Spec.MaxSteps == 0 && o.MaxSteps > 0 {
		s.MaxSteps = o.MaxSteps
	}
	w := NewWorld(s, o.World)
	x.W = w
	w.Links.Default = o.Link
	if o.HealAfter > 0 {
		w.Links.HealAt = o.HealAfter
	}
	r.Res.Config = o.String()
	s.L.Logf("config %s", r.Res.Config)
	if !o.Listen {
		x.A, x.B = w.NewPair(o.CfgA, o.CfgB, o.OwnConn)
		x.A.Out.Target, x.B.Out.Target = o.BytesAB, o.BytesBA
		x.startIO(x.A, o.WModeA, o.RModeA)
		x.startIO(x.B, o.WModeB, o.RModeB)
		return x
	}
	w.Listen()
	x.A = w.Dial("A", 1, 0x2001, o.CfgA)
	x.A.Out.Target = o.BytesAB
	x.acceptor = s.NewActor("acceptor")
	l := w.L
	x.acceptor.Do("Accept", func() any {
		sess, err := l.AcceptKCP()
		if err != nil {
			return err
		}
		return sess
	}, func(res any) {
		sess, ok := res.(*kcp.UDPSession)
		if !ok {
			s.L.Logf("ret  Accept -> %v", res)
			return
		}
		s.L.Logf("ret  Accept -> session from %s conv=%d", sess.RemoteAddr(), sess.GetConv())
		if sess.RemoteAddr().String() != x.A.Local || sess.GetConv() != x.A.Sess.GetConv() {
			s.Fail("C11", "accept", "wrong-peer", "accepted session has remote %s conv %d, the only client is %s conv %d", sess.RemoteAddr(), sess.GetConv(), x.A.Local, x.A.Sess.GetConv())
		}
		x.B = w.Adopt("B", sess, x.A, o.CfgB)
		x.B.Out.Target = o.BytesBA
		x.startIO(x.B, o.WModeB, o.RModeB)
		// the client's reader can only start once the reverse flow exists
		x.A.StartReader(o.RModeA)
		if x.OnAccept != nil {
			x.OnAccept(x.B)
		}
	})
	x.A.StartWriter(o.WModeA)
	return x
}

func (x *Xfer) startIO(ep *Endpoint, wm, rm IOMode) {
	ep.StartWriter(wm)
	if ep.In != nil {
		ep.StartReader(rm)
	}
}

// Done reports whether both directions have been completely read.
func (x *Xfer) Done() bool {
	if x.A == nil || x.B == nil {
		return false
	}
	return x.A.WriterDone && x.B.WriterDone && x.A.ReaderDone && x.B.ReaderDone
}

// Progress reports whether any payload byte has reached a reader.
func (x *Xfer) Progress() bool {
	n := int64(0)
	for _, ep := range x.W.Eps {
		if ep.In != nil {
			n += ep.In.Read
		}
	}
	return n > 0
}

// Finish tears the world down, runs the leak census and fills the result.
func (x *Xfer) Finish() {
	s, r := x.S, x.R
	r.Res.Completed = x.Done()
	r.Res.VirtualMs = int64(s.Now() / time.Millisecond) // workload time, without the teardown grace hour
	r.Res.Progress = x.Progress()
	if r.Res.Completed {
		for _, ep := range x.W.Eps {
			if ep.In != nil && ep.In.Read != ep.In.Target && ep.ReadErr == nil {
				s.Fail("C01", "stream", "incomplete", "%s: transfer finished with %d of %d bytes read", ep.Name, ep.In.Read, ep.In.Target)
			}
			if ep.Out != nil && !ep.Out.NoCheck && ep.WriteErr == nil && ep.Out.WirePos != ep.Out.Written {
				s.Fail("C09", "wire", "reassembly-incomplete", "%s: %d bytes written and delivered, but the wire decoder reassembled %d", ep.Name, ep.Out.Written, ep.Out.WirePos)
			}
		}
	}
	x.Census()
}

// Census closes everything and reports leaked goroutines (O-leak).
func (x *Xfer) Census() {
	s := x.S
	leaks := x.W.Teardown(x.Opt.CloseOrder)
	if v := x.W.Pool; v != nil {
		if pv := v.Check(true); pv != nil {
			s.Fail(pv.Prop, pv.Oracle, pv.Sig[len("C15/pool/"):], "%s", pv.Detail)
		}
	}
	if len(leaks) > 0 {
		s.Fail("C15", "leak", "goroutine-survives-close", "%d goroutine(s) of the library still exist after sessions, listener and transport were closed: %s", len(leaks), leaks[0])
		for _, l := range leaks {
			s.L.Notef("leaked: %s", l)
		}
		x.R.Res.Known = "leak"
	}
}

func scenXfer(r *Run) {
	o := DrawXferOpt(r.S.Tape, r.Spec.Tier)
	switch r.Spec.Stratum {
	case "clean":
		o.Link.LossPM, o.Link.DupPM, o.Link.ReorderPM, o.Link.GEGoodBad, o.Link.Outages = 0, 0, 0, 0, nil
	}
	x := NewXfer(r, o)
	r.S.Run(x.Done)
	x.Finish()
}

func init() {
	Register("xfer", false, scenXfer)
}
