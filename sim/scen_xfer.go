package sim

import (
	"fmt"
	"strings"
	"time"

	kcp "github.com/xtaci/kcp-go/v5"
)

// XferOpt parametrises the bidirectional transfer scenario that most
// session-level properties build on.
type XferOpt struct {
	Listen     bool // listener + dialled client (otherwise two dialled sessions)
	World      WorldOpt
	CfgA, CfgB SessCfg
	BytesAB    int64
	BytesBA    int64
	WModeA     IOMode
	WModeB     IOMode
	RModeA     IOMode
	RModeB     IOMode
	Link       LinkCfg
	HealAfter  time.Duration // >0: faults stop at this virtual time
	MaxVirtual time.Duration
	MaxSteps   int
	OwnConn    bool
	CloseOrder []int
	NoFaults   bool
	Clean18    bool
}

var fecChoices = [][2]int{{0, 0}, {3, 1}, {1, 1}, {2, 2}, {10, 3}, {4, 1}, {1, 3}, {5, 5}, {16, 4}}

// DrawXferOpt draws the configuration swarm for a transfer run.
func DrawXferOpt(t *Tape, tier string) XferOpt {
	var o XferOpt
	const cs = "cfg"
	o.Listen = t.Chance(cs, 500)
	o.World.Cipher = Pick(t, cs, CipherNames)
	fc := Pick(t, cs, fecChoices)
	o.World.FecD, o.World.FecP = fc[0], fc[1]
	o.World.UDP = t.Chance(cs, 500)
	o.World.Batch = t.Chance(cs, 400)
	o.World.SchedWorkers = 1 + t.Choose(cs, 4)
	o.World.PoolSan = true
	rc, _ := NewRefCipher(o.World.Cipher, make([]byte, cipherKeyLen(o.World.Cipher)))
	over := rc.Overhead()
	if fc[0] > 0 {
		over += 8
	}
	o.CfgA = DrawSessCfg(t, cs, over)
	o.CfgB = DrawSessCfg(t, cs, over)
	// SetDUP, rarely (a stream of its own: older tapes keep their meaning)
	if t.Chance("cfg-dup", 60) {
		o.CfgA.Dup = 1 + t.Choose("cfg-dup", 2)
		if t.Chance("cfg-dup", 500) {
			o.CfgB.Dup = 1 + t.Choose("cfg-dup", 2)
		}
	}
	mssOf := func(c SessCfg) int {
		m := 1400
		if c.MTU != 0 {
			m = min(c.MTU, 1500)
		}
		return max(1, m-over-24)
	}
	draw := func(mss int) int64 {
		maxSegs := 400
		if tier == "thorough" {
			maxSegs = 1500
		}
		lim := int64(mss) * int64(maxSegs)
		if lim > 1<<20 {
			lim = 1 << 20
		}
		return int64(t.Skewed(cs, 0, int(lim)))
	}
	o.BytesAB = draw(mssOf(o.CfgA))
	o.BytesBA = draw(mssOf(o.CfgB))
	if o.BytesAB == 0 && o.BytesBA == 0 {
		o.BytesAB = 1 + int64(t.Choose(cs, 5000))
	}
	if o.Listen && o.BytesAB == 0 {
		o.BytesAB = 1 // the server only learns about the client from its first datagram
	}
	mode := func() IOMode {
		m := IOMode{Kind: t.Choose(cs, 5)}
		if t.Chance(cs, 300) {
			m.PausePM = 50 + t.Choose(cs, 300)
			m.PauseUs = 1 + t.Skewed(cs, 0, 200000)
		}
		m.Buffers = t.Chance(cs, 250)
		return m
	}
	o.WModeA, o.WModeB, o.RModeA, o.RModeB = mode(), mode(), mode(), mode()
	// link
	o.Link.BaseUs = 50 + t.Skewed(cs, 0, 150000)
	o.Link.JitterUs = t.Skewed(cs, 0, 40000)
	if t.Chance(cs, 750) {
		o.Link.LossPM = t.Skewed(cs, 0, 400)
	}
	if t.Chance(cs, 500) {
		o.Link.DupPM = t.Skewed(cs, 0, 300)
	}
	if t.Chance(cs, 500) {
		o.Link.ReorderPM = t.Skewed(cs, 0, 400)
		o.Link.ReorderUs = 1 + t.Skewed(cs, 0, 400000)
	}
	if t.Chance(cs, 200) {
		o.Link.GEGoodBad = 10 + t.Choose(cs, 100)
		o.Link.GEBadGood = 50 + t.Choose(cs, 400)
		o.Link.GEBadLoss = 300 + t.Choose(cs, 700)
	}
	if t.Chance(cs, 200) {
		n := 1 + t.Choose(cs, 2)
		for i := 0; i < n; i++ {
			from := time.Duration(t.Skewed(cs, 0, 3000)) * time.Millisecond
			o.Link.Outages = append(o.Link.Outages, Window{from, from + time.Duration(1+t.Skewed(cs, 0, 3000))*time.Millisecond})
		}
	}
	o.OwnConn = t.Chance(cs, 300)
	for i := 0; i < 8; i++ {
		o.CloseOrder = append(o.CloseOrder, t.Choose(cs, 8))
	}
	o.MaxVirtual = 10 * time.Minute
	o.MaxSteps = 60000
	if tier == "thorough" {
		o.MaxSteps = 250000
	}
	return o
}

// growTinyMTU adds extra bytes to MTUs of the "tiny MSS" class after a scenario
// has added overhead the class was not drawn for.
func (o *XferOpt) growTinyMTU(extra int) {
	for _, c := range []*SessCfg{&o.CfgA, &o.CfgB} {
		if c.MTU != 0 && c.MTU < 200 {
			c.MTU += extra
		}
	}
}

func (o XferOpt) String() string {
	return fmt.Sprintf("listen=%v cipher=%s fec=%d/%d|%v:%d/%d udp=%v batch=%v workers=%d A{%s} B{%s} bytes=%d/%d link{base=%dus jit=%dus loss=%d dup=%d reorder=%d/%dus ge=%d/%d/%d outages=%v} heal=%v",
		o.Listen, o.World.Cipher, o.World.FecD, o.World.FecP, o.World.Mismatch, o.World.FecD2, o.World.FecP2, o.World.UDP, o.World.Batch, o.World.SchedWorkers, o.CfgA, o.CfgB, o.BytesAB, o.BytesBA,
		o.Link.BaseUs, o.Link.JitterUs, o.Link.LossPM, o.Link.DupPM, o.Link.ReorderPM, o.Link.ReorderUs, o.Link.GEGoodBad, o.Link.GEBadGood, o.Link.GEBadLoss, o.Link.Outages, o.HealAfter)
}

// Xfer is a running transfer scenario.
type Xfer struct {
	CloseAt  time.Duration // instant of the first scripted Close (ScriptCloses)
	R        *Run
	S        *Sim
	W        *World
	Opt      XferOpt
	A, B     *Endpoint
	acceptor *Actor
	// OnAccept runs when the server-side endpoint exists.
	OnAccept func(b *Endpoint)
}

// NewXfer builds the world and starts the actors.
func NewXfer(r *Run, o XferOpt) *Xfer {
	s := r.S
	x := &Xfer{R: r, S: s, Opt: o}
	s.MaxVirtual = o.MaxVirtual
	if r.Spec.MaxSteps == 0 && o.MaxSteps > 0 {
		s.MaxSteps = o.MaxSteps
	}
	w := NewWorld(s, o.World)
	x.W = w
	w.Links.Default = o.Link
	if o.HealAfter > 0 {
		w.Links.HealAt = o.HealAfter
	}
	r.Res.Config = o.String()
	s.L.Logf("config %s", r.Res.Config)
	if !o.Listen {
		x.A, x.B = w.NewPair(o.CfgA, o.CfgB, o.OwnConn)
		x.A.Out.Target, x.B.Out.Target = o.BytesAB, o.BytesBA
		x.startIO(x.A, o.WModeA, o.RModeA)
		x.startIO(x.B, o.WModeB, o.RModeB)
		return x
	}
	w.Listen()
	x.A = w.Dial("A", 1, 0x2001, o.CfgA)
	x.A.Out.Target = o.BytesAB
	x.acceptor = s.NewActor("acceptor")
	l := w.L
	x.acceptor.Do("Accept", func() any {
		sess, err := l.AcceptKCP()
		if err != nil {
			return err
		}
		return sess
	}, func(res any) {
		sess, ok := res.(*kcp.UDPSession)
		if !ok {
			w.retLog()("ret  Accept -> %v", res)
			return
		}
		s.L.Logf("ret  Accept -> session from %s conv=%d", sess.RemoteAddr(), sess.GetConv())
		if sess.RemoteAddr().String() != x.A.Local || sess.GetConv() != x.A.Sess.GetConv() {
			s.Fail("C11", "accept", "wrong-peer", "accepted session has remote %s conv %d, the only client is %s conv %d", sess.RemoteAddr(), sess.GetConv(), x.A.Local, x.A.Sess.GetConv())
		}
		x.B = w.Adopt("B", sess, x.A, o.CfgB)
		x.B.Out.Target = o.BytesBA
		x.startIO(x.B, o.WModeB, o.RModeB)
		// the client's reader can only start once the reverse flow exists
		x.A.StartReader(o.RModeA)
		if x.OnAccept != nil {
			x.OnAccept(x.B)
		}
	})
	x.A.StartWriter(o.WModeA)
	return x
}

func (x *Xfer) startIO(ep *Endpoint, wm, rm IOMode) {
	ep.StartWriter(wm)
	if ep.In != nil {
		ep.StartReader(rm)
	}
}

// Done reports whether both directions have been completely read.
func (x *Xfer) Done() bool {
	if x.A == nil || x.B == nil {
		return false
	}
	return x.A.WriterDone && x.B.WriterDone && x.A.ReaderDone && x.B.ReaderDone
}

// Progress reports whether any payload byte has reached a reader.
func (x *Xfer) Progress() bool {
	n := int64(0)
	for _, ep := range x.W.Eps {
		if ep.In != nil {
			n += ep.In.Read
		}
	}
	return n > 0
}

// Finish tears the world down, runs the leak census and fills the result.
func (x *Xfer) Finish() {
	s, r := x.S, x.R
	if s.Viol != nil {
		// the run is over; close everything without the grace period
		r.Res.VirtualMs = int64(s.Now() / time.Millisecond)
		x.W.QuickClose()
		return
	}
	r.Res.Completed = x.Done()
	r.Res.VirtualMs = int64(s.Now() / time.Millisecond) // workload time, without the teardown grace hour
	r.Res.Progress = x.Progress()
	if r.Res.Completed {
		for _, ep := range x.W.Eps {
			if ep.In != nil && ep.In.Read != ep.In.Target && ep.ReadErr == nil && s.CapHit == "" {
				s.Fail("C01", "stream", "incomplete", "%s: transfer finished with %d of %d bytes read", ep.Name, ep.In.Read, ep.In.Target)
			}
			if ep.Out != nil && !ep.Out.NoCheck && ep.WriteErr == nil && ep.Peer != nil && ep.Peer.In.Read >= ep.Out.Written && ep.Out.WirePos != ep.Out.Written {
				s.Fail("C09", "wire", "reassembly-incomplete", "%s: %d bytes written and delivered, but the wire decoder reassembled %d", ep.Name, ep.Out.Written, ep.Out.WirePos)
			}
		}
	}
	x.Census()
}

// Census closes everything and reports leaked goroutines (O-leak).
func (x *Xfer) Census() {
	s := x.S
	leaks := x.W.Teardown(x.Opt.CloseOrder)
	if v := x.W.Pool; v != nil {
		if pv := v.Check(true); pv != nil {
			s.Fail(pv.Prop, pv.Oracle, pv.Sig[len("C15/pool/"):], "%s", pv.Detail)
		}
	}
	if len(leaks) > 0 {
		s.Fail("C15", "leak", "goroutine-survives-close", "%d goroutine(s) of the library still exist after sessions, listener and transport were closed: %s", len(leaks), leaks[0])
		for _, l := range leaks {
			s.L.Notef("leaked: %s", l)
		}
		x.R.Res.Known = "leak"
	}
}

// ScriptCloses schedules a seeded sequence of Close calls (sessions, listener,
// transports, in any order, at any point of the transfer) and returns a
// predicate that is true once all of them have been performed.
func (x *Xfer) ScriptCloses() func() bool {
	s := x.S
	const cs = "close"
	n := 1 + s.Tape.Choose(cs, 4)
	at := time.Duration(s.Tape.Skewed(cs, 0, 4000000)) * time.Microsecond
	x.CloseAt = at
	remaining := n
	for i := 0; i < n; i++ {
		what := s.Tape.Choose(cs, 5)
		// an actor per Close: one of them may be held inside Close (close-yield)
		// while the others run
		ctl := s.NewActor(fmt.Sprintf("closer%d", i))
		s.At(at+time.Duration(i)*time.Nanosecond, "close", func() {
			var f func() error
			name := ""
			switch what {
			case 0:
				name = "A"
				ep := x.A
				ep.CloseInvoked = true
				f = func() error { err := ep.Sess.Close(); return err }
			case 1:
				if x.B == nil {
					remaining--
					return
				}
				name = "B"
				ep := x.B
				ep.CloseInvoked = true
				f = func() error { return ep.Sess.Close() }
			case 2:
				if x.W.L == nil {
					remaining--
					return
				}
				name = "listener"
				l := x.W.L
				f = func() error { return l.Close() }
			case 3:
				name = "conn:" + x.A.Conn.addrStr
				c := x.A.Conn
				f = func() error { return c.Close() }
			default:
				c := x.W.LConn
				if c == nil {
					c = x.B.Conn
				}
				name = "conn:" + c.addrStr
				f = func() error { return c.Close() }
			}
			s.L.Logf("call Close(%s)", name)
			s.Stats.Fault("close-midway")
			ctl.Do("Close", func() any { return f() }, func(res any) {
				s.L.Logf("ret  Close(%s) -> %v", name, res)
				remaining--
				switch what {
				case 0:
					x.A.Closed = true
				case 1:
					x.B.Closed = true
				}
			})
		})
		at += time.Duration(s.Tape.Skewed(cs, 0, 300000)) * time.Microsecond
	}
	return func() bool { return remaining <= 0 }
}

// sessBudget is the analytic over-approximation of the time a healed network
// needs to drain what has been written (see coreBudget).
func (x *Xfer) sessBudget() time.Duration {
	maxXmit := uint32(0)
	segs := 0
	ivl := 100
	for _, ep := range x.W.Eps {
		if ep.Closed {
			continue
		}
		st := ep.State()
		if st.MaxXmit > maxXmit {
			maxXmit = st.MaxXmit
		}
		segs += st.SndQueue + st.SndBuf + st.RcvQueue + st.RcvBuf
		if ep.Writer != nil && ep.Writer.Busy() {
			// a Write that is blocked on the window has queued nothing (message mode)
			// or only part (stream mode) of its bytes yet
			segs += int(ep.Out.Offered-ep.Out.Written)/max(1, ep.mss()) + 2
		}
		if int(st.Interval) > ivl {
			ivl = int(st.Interval)
		}
	}
	l := x.Opt.Link
	rtt := 2 * time.Duration(l.BaseUs+l.JitterUs+l.ReorderUs) * time.Microsecond
	per := rtt + 3*time.Duration(ivl)*time.Millisecond + 200*time.Millisecond
	return 120*time.Second + time.Duration(maxXmit+2)*60*time.Second + time.Duration(segs+4)*per*2
}

// RunHeal is the sampled part of C02 at session level: faults (possibly a total
// outage) until HealAfter, then a fair network. When the network heals the
// writers stop; everything written must reach the readers and both backlogs
// must return to zero within the budget.
func (x *Xfer) RunHeal() {
	s, o := x.S, x.Opt
	s.Run(func() bool { return x.Done() || s.Now() >= o.HealAfter })
	if s.Viol == nil && !x.Done() && s.CapHit == "" {
		if x.B == nil {
			// nothing of the client ever reached the listener during the fault period:
			// the client keeps retransmitting, the accept must still happen
			s.Stats.Probe("healed-before-accept")
		}
		stopWriters := func() {
			for _, ep := range x.W.Eps {
				if !ep.WriterDone {
					ep.WriterDone = true
				}
				ep.Out.Target = ep.Out.Offered
				ep.DrainFast = true
			}
		}
		stopWriters()
		budget := x.sessBudget()
		deadline := s.Now() + budget
		s.L.Logf("healed; what was written must be delivered within %v", budget)
		s.At(deadline, "liveness-deadline", func() {})
		drained := func() bool {
			if x.B == nil {
				return false
			}
			stopWriters() // endpoints adopted after the heal
			for _, ep := range x.W.Eps {
				if ep.Writer != nil && ep.Writer.Busy() {
					return false
				}
				ep.Out.Target = ep.Out.Written
				if st := ep.StateLite(); ep.In.Read < ep.In.Target || st.SndQueue+st.SndBuf != 0 {
					return false
				}
			}
			return true
		}
		s.Run(func() bool { return drained() || s.Now() >= deadline })
		if s.Viol == nil && !drained() && s.CapHit == "" {
			detail := ""
			for _, ep := range x.W.Eps {
				st := ep.State()
				detail += fmt.Sprintf(" %s{written=%d peer-read=%d snd_queue=%d snd_buf=%d unacked=%d una=%d nxt=%d rcv_nxt=%d rcv_queue=%d rcv_buf=%d rmt_wnd=%d cwnd=%d rto=%d maxxmit=%d probe_wait=%d acklist=%d}",
					ep.Name, ep.Out.Written, ep.Out.Read, st.SndQueue, st.SndBuf, st.SndBufUnacked, st.SndUna, st.SndNxt, st.RcvNxt, st.RcvQueue, st.RcvBuf, st.RmtWnd, st.Cwnd, st.RxRto, st.MaxXmit, st.ProbeWait, st.AckList)
			}
			if x.B == nil {
				detail = " the listener never produced an Accept for the client"
			}
			s.Fail("C02", "liveness", "backlog-not-drained", "%v after the network healed the transfer is still incomplete:%s", budget, detail)
		}
		for _, ep := range x.W.Eps {
			ep.ReaderDone = true
		}
	}
	x.R.Res.Completed = s.Viol == nil && s.CapHit == ""
	x.R.Res.Progress = x.Progress()
	x.R.Res.VirtualMs = int64(s.Now() / time.Millisecond)
	if s.Viol != nil {
		x.W.QuickClose()
		return
	}
	x.Census()
}

// RunStall is C03: while the reader is stalled the sender comes to a standstill
// with bounded buffering and without loss; after the reader resumes (and the
// targeted loss of control datagrams has ended) the transfer completes.
func (x *Xfer) RunStall(began *bool, stallUntil, lossFrom, lossTo *time.Duration) {
	s, w := x.S, x.W
	a, b := x.A, x.B
	w.Links.Filter = func(p *OutPkt) ([]Delivery, bool) {
		if !*began || p.Frame == nil || !(p.At >= *lossFrom && p.At < *lossTo) {
			return nil, false
		}
		switch p.Frame.Kind() {
		case "ack", "probe":
			s.Stats.Fault("control-datagram-drop")
			for _, sg := range p.Frame.Segs {
				switch sg.Cmd {
				case wCmdWask:
					s.Stats.Probe("wask-lost")
				case wCmdWins:
					s.Stats.Probe("wins-lost")
				}
			}
			s.L.Logf("fate %s>%s#%d control-drop (%s)", p.Src.addrStr, p.Dst, p.Idx, p.Frame.Kind())
			return nil, true
		}
		return nil, false
	}
	// what the sender has been shown: wnd of the last regular datagram delivered to A
	lastWndToA := -1
	w.Net.OnDeliver = func(to *SimConn, from string, data []byte) {
		if to != a.Conn {
			return
		}
		fc := w.connFEC[b.Conn.id]
		f, err := DecodeFrame(w.Ref, fc[0] > 0 && fc[1] > 0, data)
		if err != nil || len(f.Segs) == 0 {
			return
		}
		lastWndToA = int(f.Segs[len(f.Segs)-1].Wnd)
	}
	// every new sn A puts on the wire while the last window it was shown is 0
	seenSn := map[uint32]bool{}
	base := s.OnEmit
	s.OnEmit = func(p *OutPkt) {
		base(p)
		if p.Src != a.Conn || p.Frame == nil {
			return
		}
		for _, sg := range p.Frame.Segs {
			if sg.Cmd != wCmdPush || seenSn[sg.Sn] {
				continue
			}
			seenSn[sg.Sn] = true
			if lastWndToA == 0 {
				s.Fail("C03", "standstill", "new-segment-into-zero-window", "A put new sn %d on the wire although the last window it was shown is 0", sg.Sn)
			}
		}
	}
	largestWrite := int64(70000)
	s.Invariants = append(s.Invariants, func() {
		if !*began || s.Now() >= *stallUntil {
			return
		}
		// bounded buffering at the sender while the reader is stalled
		st := a.StateLite()
		lim := a.sndWndCfg() + int(largestWrite)/max(1, a.mss()) + 1
		if st.SndQueue+st.SndBuf > lim {
			s.Fail("C03", "bounded-buffering", "sender-backlog-exceeds-window", "A holds %d segments while the reader is stalled; send window %d plus one write is %d", st.SndQueue+st.SndBuf, a.sndWndCfg(), lim)
		}
		if st.RmtWnd == 0 {
			s.Stats.Probe("sender-sees-zero-window")
		}
	})
	s.Run(func() bool { return x.Done() || (*began && s.Now() >= *stallUntil && s.Now() >= *lossTo) })
	if s.Viol == nil && !x.Done() && s.CapHit == "" {
		// "the transfer resumes and completes": what has been written must arrive.
		// The writers stop here, so that the budget can count queued segments
		// instead of guessing how many segments the remaining bytes would become.
		for _, ep := range w.Eps {
			ep.WriterDone = true
			ep.Out.Target = ep.Out.Offered
			ep.DrainFast = true
		}
		// Liveness is stated once faults stop: from here on the network is fair
		// (a bound that has to hold while datagrams are still being lost at random
		// - e.g. the sender's probes, two minutes apart at their cap - is a bet, not
		// an oracle).
		w.Links.HealAt = s.Now()
		budget := x.sessBudget() + 2*120*time.Second // the probe interval may stand at its cap of 120 s
		deadline := s.Now() + budget
		s.L.Logf("reader resumed and control loss ended; the network is fair from now on; transfer must complete within %v", budget)
		s.At(deadline, "liveness-deadline", func() {})
		complete := func() bool {
			for _, ep := range w.Eps {
				if ep.Writer != nil && ep.Writer.Busy() {
					return false
				}
				ep.Out.Target = ep.Out.Written
				if ep.In.Read < ep.In.Target {
					return false
				}
			}
			return true
		}
		s.Run(func() bool { return complete() || s.Now() >= deadline })
		if s.Viol == nil && !complete() && s.CapHit == "" {
			sa, sb := a.State(), b.State()
			s.Fail("C03", "resume", "transfer-does-not-resume", "%v after the reader resumed the transfer is incomplete: read %d of %d; A{snd_queue=%d snd_buf=%d una=%d nxt=%d rmt_wnd=%d cwnd=%d probe_wait=%d rto=%d} B{rcv_nxt=%d rcv_queue=%d rcv_buf=%d rcv_wnd=%d}",
				budget, b.In.Read, b.In.Target, sa.SndQueue, sa.SndBuf, sa.SndUna, sa.SndNxt, sa.RmtWnd, sa.Cwnd, sa.ProbeWait, sa.RxRto, sb.RcvNxt, sb.RcvQueue, sb.RcvBuf, sb.RcvWnd)
		}
	}
	if *began {
		s.Stats.Probe("stall-completed")
	}
	if s.CapHit == "" {
		for _, ep := range w.Eps {
			ep.ReaderDone, ep.WriterDone = true, true
		}
	}
	x.Finish()
}

func scenXfer(r *Run) {
	o := DrawXferOpt(r.S.Tape, r.Spec.Tier)
	switch r.Spec.Stratum {
	case "clean":
		o.Link.LossPM, o.Link.DupPM, o.Link.ReorderPM, o.Link.GEGoodBad, o.Link.Outages = 0, 0, 0, 0, nil
	}
	if r.Spec.Stratum == "clean18" {
		// C18 clean path at session level: FIFO, constant delay, nothing lost,
		// duplicated or reordered; window precondition; RTT plus the peer's
		// acknowledgement delay below the sender's minimum RTO; readers keep up
		const cs = "cfg"
		t := r.S.Tape
		o.Link = LinkCfg{FIFO: true}
		sw := func(c *SessCfg) int {
			if c.SndWnd > 0 {
				return c.SndWnd
			}
			return 32
		}
		rw := func(c *SessCfg) int {
			if c.RcvWnd > 0 {
				return c.RcvWnd
			}
			return 32
		}
		fix := func(rx, tx *SessCfg) {
			if need := min(sw(tx), 32); rw(rx) < need {
				rx.RcvWnd = need
			}
		}
		fix(&o.CfgA, &o.CfgB)
		fix(&o.CfgB, &o.CfgA)
		minRTO := func(c *SessCfg) int {
			if c.SetNoDelay && c.NoDelay != 0 {
				return 30
			}
			return 100
		}
		ivl := func(c *SessCfg) int {
			if c.SetNoDelay {
				return max(10, min(c.Interval, 5000))
			}
			return 100
		}
		ackDelay := func(peer, sender *SessCfg) int {
			if !peer.AckNoDelay && ivl(peer) >= minRTO(sender)-4 {
				peer.AckNoDelay = true
			}
			if peer.AckNoDelay {
				return 0
			}
			return ivl(peer)
		}
		dA := (minRTO(&o.CfgA) - 3 - ackDelay(&o.CfgB, &o.CfgA)) * 1000 / 2
		dB := (minRTO(&o.CfgB) - 3 - ackDelay(&o.CfgA, &o.CfgB)) * 1000 / 2
		o.Link.BaseUs = 1 + t.Skewed(cs, 0, min(dA, dB)-2)
		o.CfgA.RateLimit, o.CfgB.RateLimit = 0, 0
		for _, m := range []*IOMode{&o.RModeA, &o.RModeB} {
			m.PausePM, m.StallAt = 0, 0
		}
		o.Clean18 = true
		if t.Chance("cfg-clk", 300) {
			// the 32-bit millisecond clock wraps (or crosses 2^31) during the transfer:
			// "exactly once" holds there too (a stream of its own: older tapes keep
			// their meaning)
			o.World.ClockOffset = time.Duration(nearBoundary(t, "cfg-clk", 200+t.Skewed("cfg-clk", 0, 20000))) * time.Millisecond
			r.S.Stats.Probe("clean-path-across-clock-wrap")
		}
	}
	if r.Spec.Stratum == "fec-window" {
		// C04 at session level with FEC: the receiver's window shrinks (small
		// window, slow reader) while data packets are lost and reconstructed; a
		// reconstructed packet is OLDER than packets already received, so the
		// window it advertises must not replace the newer one
		const cs = "cfg"
		t := r.S.Tape
		if o.World.FecD == 0 {
			o.World.FecD, o.World.FecP = 2+t.Choose(cs, 3), 1+t.Choose(cs, 2)
			o.growTinyMTU(8)
		}
		o.World.Mismatch = false
		o.CfgB.RcvWnd = 2 + t.Choose(cs, 10)
		o.CfgA.SetNoDelay, o.CfgA.NC = true, 1
		o.CfgA.NoDelay, o.CfgA.Interval, o.CfgA.Resend = t.Choose(cs, 2), 10+t.Choose(cs, 40), t.Choose(cs, 3)
		o.CfgA.RateLimit, o.CfgB.RateLimit = 0, 0
		o.RModeB = IOMode{Kind: 1 + t.Choose(cs, 2), PausePM: 300 + t.Choose(cs, 600), PauseUs: 1000 + t.Skewed(cs, 0, 100000)}
		o.Link.LossPM = 50 + t.Choose(cs, 250)
		o.Link.Outages, o.Link.GEGoodBad = nil, 0
		if o.BytesAB < 30000 {
			o.BytesAB += 30000
		}
	}
	if r.Spec.Stratum == "heal" {
		const cs = "cfg"
		t := r.S.Tape
		o.HealAfter = time.Duration(1+t.Skewed(cs, 0, 20000)) * time.Millisecond
		if t.Chance(cs, 500) {
			from := time.Duration(t.Skewed(cs, 0, 5000)) * time.Millisecond
			length := time.Duration(1+t.Skewed(cs, 0, 600000)) * time.Millisecond
			o.Link.Outages = append(o.Link.Outages, Window{from, from + length})
			if from+length > o.HealAfter {
				o.HealAfter = from + length
			}
		}
		o.MaxVirtual = o.HealAfter + 6*time.Hour
	}
	convN := 0 // stratum mismatch-converge: packets of an uninterrupted run after which B must have adopted A's ratio
	if r.Spec.Stratum == "mismatch-converge" {
		// C16 at session level, convergence half: A sends with d1/p1, B is configured
		// with another ratio or without FEC; the path loses, duplicates and reorders
		// nothing, so B sees one uninterrupted run; after 258+2(d1+p1) packets its
		// decoder must use A's ratio (hook H1 reads the decoder's effective ratio)
		const cs = "cfg"
		t := r.S.Tape
		o.World.Mismatch = true
		o.Listen = t.Chance(cs, 500)
		o.World.FecD, o.World.FecP = 1+t.Choose(cs, 6), 1+t.Choose(cs, 6)
		switch t.Choose(cs, 4) {
		case 0:
			o.World.FecD2, o.World.FecP2 = 0, 0 // FEC at the sender only
		case 1:
			o.World.FecD2, o.World.FecP2 = o.World.FecD, o.World.FecP+1
		case 2:
			o.World.FecD2, o.World.FecP2 = o.World.FecD+1+t.Choose(cs, 5), o.World.FecP
		default:
			o.World.FecD2, o.World.FecP2 = 1+t.Choose(cs, 10), 1+t.Choose(cs, 3)
			if o.World.FecD2 == o.World.FecD && o.World.FecP2 == o.World.FecP {
				o.World.FecD2++
			}
		}
		convN = 258 + 2*(o.World.FecD+o.World.FecP)
		o.Link = LinkCfg{FIFO: true, BaseUs: 100 + t.Skewed(cs, 0, 5000)}
		o.CfgA = SessCfg{MTU: 300 + t.Choose(cs, 200), SetNoDelay: true, NoDelay: 1, Interval: 10, Resend: 2, NC: 1, SndWnd: 128, RcvWnd: 128}
		o.CfgB = SessCfg{SndWnd: 128, RcvWnd: 128, SetNoDelay: true, NoDelay: 1, Interval: 10, NC: 1, AckNoDelay: t.Chance(cs, 500)}
		o.WModeA = IOMode{Kind: 2}
		o.RModeB = IOMode{Kind: 4}
		o.BytesAB, o.BytesBA = int64(convN+200)*int64(o.CfgA.MTU), 0
		o.MaxVirtual = 30 * time.Minute
		o.MaxSteps = 400000
	}
	if r.Spec.Stratum == "mismatch" || r.Spec.Stratum == "mismatch-targeted" {
		// C16 at session level: the two ends use different FEC ratios (or FEC at one
		// end only); the stream must stay intact
		const cs = "cfg"
		t := r.S.Tape
		o.World.Mismatch = true
		r.S.Alias = map[string]string{"C01": "C16"}
		pick := func() (int, int) {
			if t.Chance(cs, 200) {
				return 0, 0
			}
			if t.Chance(cs, 600) {
				return 1 + t.Choose(cs, 4), 1 + t.Choose(cs, 4)
			}
			c := Pick(t, cs, fecChoices[1:])
			return c[0], c[1]
		}
		o.World.FecD, o.World.FecP = pick()
		for tries := 0; ; tries++ {
			o.World.FecD2, o.World.FecP2 = pick()
			if o.World.FecD2 != o.World.FecD || o.World.FecP2 != o.World.FecP || tries > 30 {
				break
			}
		}
		if o.World.FecD == o.World.FecD2 && o.World.FecP == o.World.FecP2 {
			o.World.FecD2, o.World.FecP2 = o.World.FecD+1, o.World.FecP+1
		}
		// the MTU classes drawn earlier assumed one overhead for both ends
		if o.CfgA.MTU != 0 && o.CfgA.MTU < 200 {
			o.CfgA.MTU = 200
		}
		if o.CfgB.MTU != 0 && o.CfgB.MTU < 200 {
			o.CfgB.MTU = 200
		}
		if o.Link.LossPM < 50 {
			o.Link.LossPM = 50 + t.Choose(cs, 250)
		}
	}
	var stallUntil, lossFrom, lossTo time.Duration
	stallBegan := false
	if r.Spec.Stratum == "stall" {
		// C03: the receiving application stops reading for a seeded time (up to 20
		// virtual minutes), the writer keeps writing; every ACK-only / WASK / WINS
		// datagram is lost during a seeded window around the pause and the resumption
		const cs = "stall"
		t := r.S.Tape
		r.S.Alias = map[string]string{"C01": "C03", "C04": "C03"}
		o.Listen = false
		o.World.Mismatch = false
		o.BytesBA = int64(t.Skewed(cs, 0, 3000))
		o.CfgB.RcvWnd = 1 + t.Skewed(cs, 0, 63)
		o.CfgA.RateLimit, o.CfgB.RateLimit = 0, 0
		mssA := 1400
		if o.CfgA.MTU != 0 {
			mssA = max(60, min(o.CfgA.MTU, 1500))
		}
		o.BytesAB = int64(mssA) * int64(20+t.Skewed(cs, 0, 300))
		o.RModeB.StallAt = 1 + int64(t.Skewed(cs, 0, int(o.BytesAB)-1))
		o.RModeB.StallFor = time.Duration(1+t.Skewed(cs, 0, 1200000)) * time.Millisecond
		o.RModeB.PausePM = 0
		o.RModeB.OnStall = func(until time.Duration) {
			stallBegan = true
			stallUntil = until
			// the targeted-loss window overlaps the pause and/or the resumption
			now := r.S.Now()
			switch t.Choose(cs, 4) {
			case 0: // the whole pause and a bit beyond
				lossFrom, lossTo = now, until+time.Duration(t.Skewed(cs, 0, 5000))*time.Millisecond
			case 1: // around the resumption only
				lossFrom, lossTo = until-time.Duration(t.Skewed(cs, 0, 3000))*time.Millisecond, until+time.Duration(t.Skewed(cs, 0, 8000))*time.Millisecond
			case 2: // the beginning of the pause
				lossFrom, lossTo = now, now+time.Duration(t.Skewed(cs, 0, 30000))*time.Millisecond
			default: // none
			}
			r.S.L.Logf("stall until %v; control datagrams lost in [%v,%v)", until, lossFrom, lossTo)
		}
		o.Link.Outages, o.Link.GEGoodBad = nil, 0
		if o.Link.LossPM > 100 {
			o.Link.LossPM = 100
		}
		o.MaxVirtual = 3 * time.Hour
		o.MaxSteps = 400000
	}
	var wrapX, wrapY, wrapF uint32
	if r.Spec.Stratum == "wrap" {
		// C12 at session level: both cores start at shifted sequence numbers, the
		// core clock at a shifted offset and the FEC encoders near their wrap value;
		// the transfer must complete with the stream intact
		const ws = "wrap"
		t := r.S.Tape
		r.S.Alias = map[string]string{"C01": "C12", "C09": "C12"}
		if r.Spec.Prop == "C09" {
			// the wire format across the wraps, decided for C09 itself
			r.S.Alias = map[string]string{}
		}
		o.Listen = false
		segs := int(o.BytesAB+o.BytesBA)/200 + 50
		wrapX, wrapY = nearBoundary(t, ws, segs), nearBoundary(t, ws, segs)
		o.World.ClockOffset = time.Duration(nearBoundary(t, ws, 5000+t.Skewed(ws, 0, 60000))) * time.Millisecond
		wrapF = uint32(1 + t.Choose(ws, 40)) // groups before the FEC id wrap
		o.MaxVirtual = 20 * time.Minute
	}
	if strings.HasPrefix(r.Spec.Stratum, "fec") {
		// C07 at session level: FEC on at both ends with the same ratio, loss, and
		// parity-aware targeted loss; the stream oracle decides
		const cs = "cfg"
		t := r.S.Tape
		r.S.Alias = map[string]string{"C01": "C07"}
		if o.World.FecD == 0 {
			c := Pick(t, cs, fecChoices[1:])
			o.World.FecD, o.World.FecP = c[0], c[1]
			o.growTinyMTU(8)
		}
		if o.Link.LossPM < 30 {
			o.Link.LossPM = 30 + t.Choose(cs, 250)
		}
	}
	x := NewXfer(r, o)
	if r.Spec.Prop == "C04" {
		x.InstallAdmissionOracle()
	}
	if convN > 0 {
		// count the FEC packets of A delivered to B, in the order of arrival
		seen := 0
		prev := x.W.Net.OnDeliver
		x.W.Net.OnDeliver = func(to *SimConn, from string, data []byte) {
			if prev != nil {
				prev(to, from, data)
			}
			if from == x.A.Local {
				seen++
			}
		}
		checked := false
		r.S.Invariants = append(r.S.Invariants, func() {
			if checked || seen < convN+8 || x.B == nil || x.B.Closed {
				return
			}
			checked = true
			fi := x.B.Sess.VerifFEC()
			r.S.Stats.Probe("convergence-checked")
			if !fi.Present || fi.Data != x.W.FecD || fi.Parity != x.W.FecP {
				r.S.Fail("C16", "fec-convergence", "session-not-converged", "after an uninterrupted run of %d packets from a %d/%d sender the receiver's decoder (configured %d/%d) is at %d/%d (present=%v)", seen, x.W.FecD, x.W.FecP, x.W.FecD2, x.W.FecP2, fi.Data, fi.Parity, fi.Present)
			}
		})
	}
	if r.Spec.Stratum == "wrap" {
		// runs before the writers' first Write (those are events of their own)
		a, b := x.A, x.B
		a.Sess.VerifWithLock(func(k *kcp.KCP) { k.VerifSetSeq(wrapX, wrapY) })
		b.Sess.VerifWithLock(func(k *kcp.KCP) { k.VerifSetSeq(wrapY, wrapX) })
		a.Out.ISN, b.Out.ISN = wrapX, wrapY
		for _, ep := range []*Endpoint{a, b} {
			fc := x.W.connFEC[ep.Conn.id]
			if n := uint32(fc[0] + fc[1]); fc[0] > 0 {
				paws := uint32(0xffffffff) / n * n
				ep.Sess.VerifSetFECNext(paws - n*wrapF)
			}
		}
		r.S.L.Logf("wrap: snA=%d snB=%d clock=%v fec=%d groups before the wrap", wrapX, wrapY, o.World.ClockOffset, wrapF)
	}
	if r.Spec.Stratum == "fec-noparity" || r.Spec.Stratum == "fec-completing" {
		mode := r.Spec.Stratum
		w := x.W
		seen := map[string]map[uint32]int{}
		w.Links.Filter = func(p *OutPkt) ([]Delivery, bool) {
			f := p.Frame
			if f == nil || !f.HasFEC || f.OOB {
				return nil, false
			}
			key := p.Src.addrStr + ">" + p.Dst
			if mode == "fec-noparity" {
				// losing all parity never harms delivery
				if f.FecType == wFecParity {
					r.S.Stats.Fault("parity-drop")
					r.S.L.Logf("fate %s#%d parity-drop", key, p.Idx)
					return nil, true
				}
				return nil, false
			}
			// drop one data packet per group, so that every group needs its parity
			fc := w.connFEC[p.Src.id]
			n := uint32(fc[0] + fc[1])
			g := f.FecSeq / n
			if seen[key] == nil {
				seen[key] = map[uint32]int{}
			}
			if f.FecType == wFecData && seen[key][g] == 0 && r.S.Tape.Chance("link/"+key, 500) {
				seen[key][g]++
				r.S.Stats.Fault("group-data-drop")
				r.S.L.Logf("fate %s#%d group-data-drop", key, p.Idx)
				return nil, true
			}
			return nil, false
		}
	}
	if r.Spec.Stratum == "mismatch-targeted" {
		// drop exactly the packets whose FEC type contradicts what the receiver's
		// configured ratio expects at that id, so that it never sees a reason to
		// re-tune and decodes parity under the wrong layout
		w := x.W
		w.Links.Filter = func(p *OutPkt) ([]Delivery, bool) {
			f := p.Frame
			if f == nil || !f.HasFEC || f.OOB {
				return nil, false
			}
			// receiver's configuration = the configuration of the conn the datagram goes to
			dst := w.Net.conns[p.Dst]
			if dst == nil {
				return nil, false
			}
			rc := w.connFEC[dst.id]
			d2, p2 := rc[0], rc[1]
			if d2 == 0 || p2 == 0 {
				d2, p2 = 1, 1 // a session without FEC creates a 1/1 decoder on demand
			}
			expData := f.FecSeq%uint32(d2+p2) < uint32(d2)
			if expData != (f.FecType == wFecData) {
				r.S.Stats.Fault("targeted-drop")
				r.S.L.Logf("fate %s>%s#%d targeted-drop (type contradicts receiver's %d/%d)", p.Src.addrStr, p.Dst, p.Idx, d2, p2)
				return nil, true
			}
			return nil, false
		}
	}
	if o.Clean18 {
		x.W.CheckOnce = true
	}
	if r.Spec.Stratum == "heal" {
		x.RunHeal()
		return
	}
	if r.Spec.Stratum == "stall" {
		x.RunStall(&stallBegan, &stallUntil, &lossFrom, &lossTo)
		return
	}
	if r.Spec.Stratum == "close" || r.Spec.Stratum == "close-yield" {
		closed := x.ScriptCloses()
		if r.Spec.Stratum == "close-yield" {
			x.HoldAtYield()
		}
		r.S.Run(func() bool { return closed() || x.Done() })
		if r.S.Viol == nil {
			// let blocked calls observe the close, then take the census
			r.S.Settle(time.Duration(1+r.S.Tape.Skewed("close", 0, 3000)) * time.Millisecond)
		}
	} else {
		r.S.Run(x.Done)
	}
	x.Finish()
}

// InstallAdmissionOracle (C04 at session level): a NEW sequence number may be put
// on the wire only while the segments outstanding stay within min(send window,
// the window the peer advertised last). "Advertised last" is the harness's own
// view: the wnd field of the last segment of the last regular (not parity, not
// out-of-band) datagram DELIVERED to the sender - a packet the FEC decoder
// reconstructs is older than what has been received and tells the sender
// nothing new. Before anything is delivered a sender assumes 32. The congestion
// window only lowers the limit and is not used here (the raw-core oracle does).
func (x *Xfer) InstallAdmissionOracle() {
	s, w := x.S, x.W
	lastWnd := map[string]int{} // emitting flow "sender>peer" -> window shown to the sender
	prevDeliver := w.Net.OnDeliver
	w.Net.OnDeliver = func(to *SimConn, from string, data []byte) {
		if prevDeliver != nil {
			prevDeliver(to, from, data)
		}
		src := w.Net.conns[from]
		if src == nil {
			return
		}
		fc := w.connFEC[src.id]
		f, err := DecodeFrame(w.Ref, fc[0] > 0 && fc[1] > 0, data)
		if err != nil || f.OOB || len(f.Segs) == 0 || (f.HasFEC && f.FecType == wFecParity) {
			return
		}
		lastWnd[to.addrStr+">"+from] = int(f.Segs[len(f.Segs)-1].Wnd)
	}
	seen := map[string]map[uint32]bool{}
	base := s.OnEmit
	s.OnEmit = func(p *OutPkt) {
		base(p)
		if p.Frame == nil || p.Post || s.Viol != nil {
			return
		}
		key := p.Src.addrStr + ">" + p.Dst
		ep := w.byFlow[key]
		if ep == nil || ep.Closed || ep.CloseInvoked {
			return
		}
		m := seen[key]
		if m == nil {
			m = map[uint32]bool{}
			seen[key] = m
		}
		newSn := 0
		for _, sg := range p.Frame.Segs {
			if sg.Cmd == wCmdPush && !m[sg.Sn] {
				m[sg.Sn] = true
				newSn++
			}
		}
		if newSn == 0 {
			return
		}
		shown, ok := lastWnd[key]
		if !ok {
			shown = 32
		}
		st := ep.StateLite()
		out := int(int32(st.SndNxt - st.SndUna))
		lim := min(ep.sndWndCfg(), shown)
		if shown == 0 {
			s.Stats.Probe("admission-checked-at-zero-window")
		}
		if out > lim && out > 0 {
			s.Fail("C04", "admission", "new-segment-beyond-advertised-window", "%s: new sn put on the wire with %d outstanding; min(send window %d, window last advertised to it %d) = %d", ep.Name, out, ep.sndWndCfg(), shown, lim)
		}
	}
}

// closeYieldSites are the lock-free points of the library's goroutines (and of
// Close itself) at which one goroutine is held while the scripted Closes happen.
var closeYieldSites = []string{"close.afterdie", "post.tx", "update.entry", "readloop.got", "monitor.got", "read.block", "write.block"}

// HoldAtYield (stratum close-yield, C15): shortly before the scripted Closes one
// goroutine of the library - the read loop holding a datagram it has just
// received, the post-processing goroutine about to transmit, a scheduled update
// callback about to run, a Read/Write about to block, or Close itself right
// after it marked the session dead - is parked at a yield point, the Closes
// (sessions, listener, transports, in seeded order) take place while it is
// held, and it is released a seeded time later. Every always-on oracle applies:
// pool sanitizer (use after recycle, double recycle), leak census, stream
// oracle; a process crash from here on is this property's violation.
func (x *Xfer) HoldAtYield() {
	s := x.S
	t := s.Tape
	const ys = "yield"
	site := Pick(t, ys, closeYieldSites)
	lead := time.Duration(t.Skewed(ys, 0, 30000)) * time.Microsecond
	hold := time.Duration(1+t.Skewed(ys, 0, 60000)) * time.Microsecond
	s.mu.Lock() // the library's goroutines are already consulting the yield control
	s.Yield.Armed[site] = true
	s.Yield.Active = map[string]bool{"read.wake": true, "write.wake": true, site: false}
	s.mu.Unlock()
	held := false
	s.BeforeStep = func() {
		// Once a session is closed, whether its goroutines still reach their yield
		// points (last flush, last transmission) is the runtime's choice: the hold
		// must begin BEFORE the first Close - except for Close's own site, which
		// is reached by the scripted Close calls themselves.
		now := s.Now()
		on := !held && now+lead >= x.CloseAt && now < x.CloseAt
		if site == "close.afterdie" {
			on = !held && now >= x.CloseAt && !x.W.TearingDown
		}
		s.SetActive(site, on)
	}
	s.OnDrain = func() {
		var group []*parkedG
		for _, p := range s.TakeParked() {
			p := p
			if p.site == site {
				group = append(group, p)
				continue
			}
			s.Stats.Probe("serialised-wake-up")
			s.At(s.Now(), "wake:"+p.who, func() { s.Release(p) })
		}
		if len(group) == 0 {
			return
		}
		// goroutines that reached the site within one cascade are held and released
		// together (which of them came first is the runtime's choice)
		held = true
		s.SetActive(site, false)
		s.Stats.Fault("held-at:" + site)
		s.L.Logf("%d goroutine(s) held at %s for %v (first Close at %v)", len(group), site, hold, x.CloseAt)
		Mark("interleaving/crash-while-a-goroutine-is-held-across-close")
		s.After(hold, "release:"+site, func() {
			s.L.Logf("release %d goroutine(s) held at %s", len(group), site)
			for _, p := range group {
				s.Release(p)
			}
		})
	}
}

func init() {
	Register("xfer", false, scenXfer)
}
