package sim

import (
	"bytes"
	"encoding/binary"
	"fmt"
	"sort"
	"strconv"
	"strings"
	"time"

	kcp "github.com/xtaci/kcp-go/v5"
)

// FEC codec simulations (Mode K, codecs alone): the real fecEncoder produces
// packets at seeded virtual instants, a channel model loses / duplicates /
// reorders them, the real fecDecoder consumes them; a reference model (group ->
// set of distinct ids seen) decides soundness and completeness.

type fecPkt struct {
	id     uint32
	parity bool
	raw    []byte // from the seqid field on, as the decoder sees it
	group  uint32
	pos    int
}

// fecSender wraps the real encoder and remembers every original data packet.
type fecSender struct {
	d, p    int
	enc     *kcp.VerifFECEncoder
	origs   map[string]bool // "size||payload" of every data packet ever sent
	byGroup map[uint32][][]byte
	x       uint64
}

func newFecSender(d, p int, start uint32, seed uint64) *fecSender {
	enc := kcp.VerifNewFECEncoder(d, p, 0)
	if enc == nil {
		panic("harness: encoder parameters refused")
	}
	enc.SetNext(start)
	return &fecSender{d: d, p: p, enc: enc, origs: map[string]bool{}, byGroup: map[uint32][][]byte{}, x: seed}
}

// send encodes one payload; returns the data packet and any parity packets.
func (fs *fecSender) send(payloadLen int) []fecPkt {
	b := make([]byte, 8+payloadLen)
	for i := 8; i < len(b); i++ {
		b[i] = byte(splitmix(&fs.x))
	}
	// make it look like a KCP PUSH header where there is room, so that a wrongly
	// reconstructed packet would be plausible downstream
	n := uint32(fs.d + fs.p)
	id := fs.enc.Next()
	ps := fs.enc.Encode(b, 500)
	g := id / n
	body := append([]byte(nil), b[6:]...) // size || payload
	fs.origs[string(body)] = true
	fs.byGroup[g] = append(fs.byGroup[g], body)
	out := []fecPkt{{id: id, raw: append([]byte(nil), b...), group: g, pos: int(id % n)}}
	for _, pp := range ps {
		raw := append([]byte(nil), pp...)
		pid := binary.LittleEndian.Uint32(raw)
		out = append(out, fecPkt{id: pid, parity: true, raw: raw, group: pid / n, pos: int(pid % n)})
	}
	return out
}

// checkRecovered is the soundness oracle: every byte string the decoder returns
// is size||payload of an original data packet followed only by zero padding.
// It returns the bodies and recycles the buffers like the session layer does.
func checkRecovered(s *Sim, prop string, fs *fecSender, recs [][]byte, ctx string, strict bool) (bodies [][]byte, ok bool) {
	ok = true
	if !strict {
		// a receiver decoding under a ratio that is not the sender's may return
		// anything; what matters then is that none of it reaches the stream, which
		// the session-level runs decide. Count it.
		for _, r := range recs {
			sz := 0
			if len(r) >= 2 {
				sz = int(binary.LittleEndian.Uint16(r))
			}
			if sz < 2 || sz > len(r) || !fs.origs[string(r[:sz])] {
				s.Stats.Probe("non-original-output-under-wrong-ratio")
			}
			kcp.VerifPoolRecycle(r)
		}
		return nil, true
	}
	for _, r := range recs {
		if len(r) < 2 {
			s.Fail(prop, "fec-soundness", "recovered-too-short", "%s: decoder returned %d bytes", ctx, len(r))
			ok = false
			continue
		}
		sz := int(binary.LittleEndian.Uint16(r))
		if sz < 2 || sz > len(r) {
			s.Fail(prop, "fec-soundness", "recovered-bad-size", "%s: decoder returned a packet whose size field is %d (buffer %d) - not an original data packet", ctx, sz, len(r))
			ok = false
		} else {
			body := r[:sz]
			if !fs.origs[string(body)] {
				s.Fail(prop, "fec-soundness", "recovered-not-original", "%s: decoder returned %d bytes that are not an original data packet (h=%s)", ctx, sz, hashBytes(body))
				ok = false
			}
			for _, c := range r[sz:] {
				if c != 0 {
					s.Fail(prop, "fec-soundness", "recovered-padding", "%s: bytes after the recovered packet's length are not zero", ctx)
					ok = false
					break
				}
			}
			bodies = append(bodies, append([]byte(nil), body...))
		}
		kcp.VerifPoolRecycle(r)
	}
	return
}

func sizeVector(t *Tape, st string, d int, kind int) []int {
	v := make([]int, d)
	for i := range v {
		switch kind {
		case 0:
			v[i] = 24
		case 1:
			v[i] = 1 + 37*i
		case 2:
			v[i] = 10
			if i == d/2 {
				v[i] = 1400
			}
		case 3:
			v[i] = 1 + t.Choose(st, 1400)
		default:
			v[i] = 1 + (i*7919)%97
		}
		if v[i] > 1400 {
			v[i] = 1 + v[i]%1400
		}
	}
	return v
}

// ---------------------------------------------------------------------------
// scenario "fec-enum" (C07, fault_enumeration): all subsets x all arrival orders
// ---------------------------------------------------------------------------

func permutations(n int, f func([]int)) {
	p := make([]int, n)
	for i := range p {
		p[i] = i
	}
	var rec func(k int)
	rec = func(k int) {
		if k == n {
			f(p)
			return
		}
		for i := k; i < n; i++ {
			p[k], p[i] = p[i], p[k]
			rec(k + 1)
			p[k], p[i] = p[i], p[k]
		}
	}
	rec(0)
}

func scenFecEnum(r *Run) {
	s := r.S
	s.PanicProp = "C05"
	t := s.Tape
	const cs = "cfg"
	kcp.VerifPoolGet, kcp.VerifPoolPut = nil, nil
	pool := NewPoolSan()
	kcp.VerifPoolGet, kcp.VerifPoolPut = pool.Get, pool.Put
	maxN := 5
	if r.Spec.Tier == "thorough" {
		maxN = 6
	}
	// the run's seed selects (d,p), the payload-size vector and the placement;
	// everything else is enumerated
	var pairs [][2]int
	for d := 1; d < maxN; d++ {
		for p := 1; d+p <= maxN; p++ {
			pairs = append(pairs, [2]int{d, p})
		}
	}
	var dp [2]int
	var kind, placement, dupMode int
	if strings.HasPrefix(r.Spec.Stratum, "combo:") {
		// the supervisor enumerates all combinations: (d,p) x size vector x
		// placement x duplicate mode
		k, _ := strconv.Atoi(strings.TrimPrefix(r.Spec.Stratum, "combo:"))
		dupMode = k % 3
		k /= 3
		placement = k % 3
		k /= 3
		kind = k % 5
		k /= 5
		dp = pairs[k%len(pairs)]
	} else {
		dp = pairs[t.Choose(cs, len(pairs))]
		kind = t.Choose(cs, 5)
		placement = t.Choose(cs, 3) // 0 first group, 1 middle, 2 last group before the id wrap
		dupMode = t.Choose(cs, 3)   // 0 none, 1 duplicate the first arrival immediately, 2 duplicate it at the end
	}
	d, p := dp[0], dp[1]
	n := d + p
	sizes := sizeVector(t, cs, d, kind)
	paws := uint32(0xffffffff) / uint32(n) * uint32(n)
	var start uint32
	switch placement {
	case 1:
		start = uint32(n) * uint32(1000+t.Choose(cs, 100000))
	case 2:
		start = paws - 2*uint32(n)
	}
	r.Res.Config = fmt.Sprintf("d=%d p=%d sizes=%v placement=%d start=%d dup=%d", d, p, sizes, placement, start, dupMode)
	s.L.Logf("config %s", r.Res.Config)
	cases := 0
	for mask := 0; mask < 1<<n && s.Viol == nil; mask++ {
		var members []int
		for i := 0; i < n; i++ {
			if mask&(1<<i) != 0 {
				members = append(members, i)
			}
		}
		permutations(len(members), func(perm []int) {
			if s.Viol != nil {
				return
			}
			cases++
			// fresh codec pair for the case; neighbours: one complete group before
			// (unless first), the group under test, one complete group after
			// a warm-up group first: the encoder judges continuity by the time since
			// the previous data packet, which does not exist for the very first one
			fs := newFecSender(d, p, uint32((uint64(start)+uint64(paws)-uint64(n))%uint64(paws)), 99)
			for i := 0; i < d; i++ {
				fs.send(sizes[i])
			}
			dec := kcp.VerifNewFECDecoder(d, p)
			feed := func(pk fecPkt, ctx string) [][]byte {
				recs := dec.Decode(pk.raw)
				bodies, _ := checkRecovered(s, "C07", fs, recs, ctx, true)
				return bodies
			}
			var groups [][]fecPkt
			ngroups := 3
			if placement == 0 {
				ngroups = 2
			}
			for g := 0; g < ngroups; g++ {
				var grp []fecPkt
				for i := 0; i < d; i++ {
					grp = append(grp, fs.send(sizes[i])...)
				}
				if len(grp) != n {
					s.Fail("C07", "fec-encoder", "group-size", "encoder produced %d packets for a %d+%d group", len(grp), d, p)
					return
				}
				groups = append(groups, grp)
			}
			ti := 1
			if placement == 0 {
				ti = 0
			}
			for g := 0; g < ti; g++ {
				for _, pk := range groups[g] {
					if b := feed(pk, "neighbour before"); len(b) != 0 {
						// with parity >= data shards the parity packets alone refill the group
						// after the data packets were consumed: a legal re-emission of genuine
						// packets (soundness is checked inside feed)
						s.Stats.Probe("fec-re-emission")
					}
				}
			}
			target := groups[ti]
			seen := map[int]bool{}
			completed := false
			order := make([]int, 0, len(perm)+1)
			for _, k := range perm {
				order = append(order, members[k])
			}
			if dupMode == 1 && len(order) > 0 {
				order = append([]int{order[0]}, order...)
			} else if dupMode == 2 && len(order) > 0 {
				order = append(order, order[0])
			}
			for step, idx := range order {
				pk := target[idx]
				bodies := feed(pk, fmt.Sprintf("mask=%b order=%v step=%d", mask, order, step))
				wasNew := !seen[idx]
				seen[idx] = true
				if wasNew && len(seen) == d && !completed {
					completed = true
					// completeness: exactly the data packets not received
					var missing [][]byte
					for i := 0; i < d; i++ {
						if !seen[i] {
							missing = append(missing, fs.byGroup[target[0].group][i])
						}
					}
					if !sameBodies(bodies, missing) {
						s.Fail("C07", "fec-completeness", "missing-not-reconstructed", "d=%d p=%d mask=%b order=%v: %d distinct packets of the group received (step %d): expected %d reconstructed data packets, decoder returned %d", d, p, mask, order, d, step, len(missing), len(bodies))
						return
					}
					if len(missing) > 0 {
						s.Stats.Probe("fec-recovered")
					}
				} else if len(bodies) > 0 {
					// only legal if they are genuine packets of this group (soundness
					// already checked): re-emission after the group refilled
					for _, b := range bodies {
						found := false
						for _, o := range fs.byGroup[target[0].group] {
							if bytes.Equal(o, b) {
								found = true
							}
						}
						if !found {
							s.Fail("C07", "fec-soundness", "recovered-from-other-group", "mask=%b order=%v step=%d: decoder returned a data packet of another group", mask, order, step)
							return
						}
					}
					s.Stats.Probe("fec-re-emission")
				}
			}
			for g := ti + 1; g < ngroups; g++ {
				for _, pk := range groups[g] {
					if b := feed(pk, "neighbour after"); len(b) != 0 {
						// with parity >= data shards the parity packets alone refill the group
						// after the data packets were consumed: a legal re-emission of genuine
						// packets (soundness is checked inside feed)
						s.Stats.Probe("fec-re-emission")
					}
				}
			}
			if placement == 2 && fs.enc.Next() >= paws-uint32(n) {
				// the group after the one under test is the first after the wrap
				s.Stats.Probe("fec-id-wrap-crossed")
			}
		})
	}
	if pv := pool.Check(true); pv != nil {
		s.Fail(pv.Prop, pv.Oracle, pv.Sig[len("C15/pool/"):], "%s", pv.Detail)
	}
	r.Res.Cases = cases
	r.Res.Progress = true
	r.Res.Completed = s.Viol == nil
	r.Res.VirtualMs = int64(s.Now() / time.Millisecond)
	s.L.Logf("enumerated %d cases", cases)
}

func sameBodies(a, b [][]byte) bool {
	if len(a) != len(b) {
		return false
	}
	as, bs := make([]string, len(a)), make([]string, len(b))
	for i := range a {
		as[i], bs[i] = string(a[i]), string(b[i])
	}
	sort.Strings(as)
	sort.Strings(bs)
	for i := range as {
		if as[i] != bs[i] {
			return false
		}
	}
	return true
}

// ---------------------------------------------------------------------------
// scenario "fec-stream" (C07 sampled, C16): a stream of groups through a
// lossy, duplicating, reordering channel; optional ratio mismatch
// ---------------------------------------------------------------------------

var fecBigChoices = [][2]int{{3, 1}, {1, 1}, {2, 2}, {10, 3}, {4, 2}, {1, 3}, {5, 5}, {20, 10}, {16, 4}, {100, 28}, {254, 1}, {1, 254}, {128, 127}, {7, 1}, {13, 2}}

func drawDP(t *Tape, st string, small bool) (int, int) {
	if small {
		return 1 + t.Choose(st, 4), 1 + t.Choose(st, 4)
	}
	if t.Chance(st, 300) {
		d := 1 + t.Choose(st, 254)
		p := 1 + t.Choose(st, 255-d)
		return d, p
	}
	c := Pick(t, st, fecBigChoices)
	return c[0], c[1]
}

func scenFecStream(r *Run) {
	s := r.S
	s.PanicProp = "C05"
	t := s.Tape
	const cs, ch = "cfg", "chan"
	pool := NewPoolSan()
	kcp.VerifPoolGet, kcp.VerifPoolPut = pool.Get, pool.Put
	prop := r.Spec.Prop
	if prop != "C16" && prop != "C12" {
		prop = "C07"
	}
	mismatch := r.Spec.Stratum == "mismatch" || r.Spec.Stratum == "mismatch-small" || r.Spec.Stratum == "mismatch-targeted"
	small := r.Spec.Stratum == "mismatch-small" || r.Spec.Stratum == "small"
	targeted := r.Spec.Stratum == "mismatch-targeted"
	d1, p1 := drawDP(t, cs, small || targeted)
	d2, p2 := d1, p1
	if mismatch && t.Chance("cfg-rel", 350) {
		// related pairs, where a comparison of the wrong two numbers hides: same
		// data count, same parity count, same sum split differently, swapped,
		// equal counts at the sender (a stream of its own: older tapes keep their meaning)
		const cr = "cfg-rel"
		lim := 255
		if small || targeted {
			lim = 8
		}
		switch t.Choose(cr, 5) {
		case 0:
			d2, p2 = d1, 1+t.Choose(cr, min(lim-d1, 254))
		case 1:
			d2, p2 = 1+t.Choose(cr, min(lim-p1, 254)), p1
		case 2:
			if sum := d1 + p1; sum > 2 {
				d2 = 1 + t.Choose(cr, sum-1)
				p2 = sum - d2
			}
		case 3:
			d2, p2 = p1, d1
		default:
			k := 1 + t.Choose(cr, min(lim/2, 127))
			d1, p1, d2 = k, k, k
			p2 = 1 + t.Choose(cr, min(lim-k, 254))
		}
		s.Stats.Probe("related-ratio-pair")
	}
	if mismatch {
		for tries := 0; d2 == d1 && p2 == p1; tries++ {
			d2, p2 = drawDP(t, cs, small || targeted)
			if tries > 20 {
				d2 = d1%4 + 1
				p2 = p1%4 + 1
				if d2 == d1 && p2 == p1 {
					d2++
				}
			}
		}
	}
	n1 := uint32(d1 + p1)
	paws := uint32(0xffffffff) / n1 * n1
	var start uint32
	startKind := t.Choose(cs, 4)
	if r.Spec.Stratum == "wrap" {
		startKind = 2 + t.Choose(cs, 2) // C12: always around the wrap value or 2^31
	}
	switch startKind {
	case 1:
		start = n1 * uint32(t.Choose(cs, 1<<20))
	case 2:
		start = paws - n1*uint32(1+t.Choose(cs, 6)) // crosses the wrap during the run
	case 3:
		start = n1 * (uint32(0x80000000)/n1 - uint32(t.Choose(cs, 4)))
	}
	// phase: the receiver may join in the middle of a group
	skipFirst := t.Choose(cs, int(n1))
	lossPM, dupPM, reorderPM := 0, 0, 0
	if t.Chance(cs, 700) {
		lossPM = t.Skewed(cs, 0, 500)
	}
	if t.Chance(cs, 400) {
		dupPM = t.Skewed(cs, 0, 300)
	}
	if t.Chance(cs, 400) {
		reorderPM = t.Skewed(cs, 0, 400)
	}
	maxShift := 1 + t.Skewed(cs, 0, 3*int(n1))
	gapPM := 0
	if t.Chance(cs, 300) {
		gapPM = t.Skewed(cs, 0, 300) // sender pauses >= 500 ms: parity skipped
	}
	nGroups := 4 + t.Skewed(cs, 0, 60)
	if n1 > 64 {
		nGroups = 3 + t.Choose(cs, 6)
	}
	kind := 3
	if t.Chance(cs, 300) {
		kind = t.Choose(cs, 5)
	}
	fs := newFecSender(d1, p1, start, s.Tape.Seed^0xfec)
	dec := kcp.VerifNewFECDecoder(d2, p2)
	r.Res.Config = fmt.Sprintf("sender=%d/%d receiver=%d/%d start=%d skip=%d loss=%d dup=%d reorder=%d/%d gap=%d groups=%d sizes=%d targeted=%v", d1, p1, d2, p2, start, skipFirst, lossPM, dupPM, reorderPM, maxShift, gapPM, nGroups, kind, targeted)
	s.L.Logf("config %s", r.Res.Config)

	// 1. the sender produces the packet sequence (virtual time matters for parity skipping)
	var seq []fecPkt
	for g := 0; g < nGroups; g++ {
		sizes := sizeVector(t, cs, d1, kind)
		for i := 0; i < d1; i++ {
			if gapPM > 0 && t.Chance(cs, gapPM) {
				time.Sleep(time.Duration(500+t.Choose(cs, 1000)) * time.Millisecond)
				s.Stats.Fault("sender-gap")
			} else {
				time.Sleep(time.Duration(1+t.Choose(cs, 50)) * time.Millisecond)
			}
			seq = append(seq, fs.send(sizes[i])...)
		}
	}
	for i := 1; i < len(seq); i++ {
		if seq[i].id < seq[i-1].id {
			s.Stats.Probe("fec-id-wrap-crossed")
		}
		if seq[i].id != (seq[i-1].id+1)%paws {
			s.Stats.Probe("fec-parity-skipped")
		}
	}
	if skipFirst < len(seq) {
		seq = seq[skipFirst:]
	}
	// 2. the channel: loss, duplication, bounded reordering (by positions)
	type arrival struct {
		key int
		pk  fecPkt
	}
	var arr []arrival
	for i, pk := range seq {
		if targeted {
			// drop exactly the packets whose type contradicts what the receiver's
			// configured ratio expects at that id, so that it never learns
			n2 := uint32(d2 + p2)
			expData := pk.id%n2 < uint32(d2)
			if expData == pk.parity {
				s.Stats.Fault("targeted-drop")
				continue
			}
		}
		if t.Chance(ch, lossPM) {
			s.Stats.Fault("drop")
			continue
		}
		k := i * 4
		if t.Chance(ch, reorderPM) {
			k += 4 * (1 + t.Choose(ch, maxShift))
			s.Stats.Fault("reorder-delay")
		}
		arr = append(arr, arrival{k, pk})
		if t.Chance(ch, dupPM) {
			arr = append(arr, arrival{k + 1 + 4*t.Choose(ch, maxShift+1), pk})
			s.Stats.Fault("duplicate")
		}
	}
	sort.SliceStable(arr, func(i, j int) bool { return arr[i].key < arr[j].key })

	// 3. the receiver, with the reference model
	type gstate struct {
		seen     map[uint32]bool
		complete bool
	}
	model := map[uint32]*gstate{}
	var newest uint32
	haveNewest := false
	initial := dec.Info()
	contiguous := 0
	var lastID uint32
	converged := false
	for step, a := range arr {
		pk := a.pk
		recs := dec.Decode(pk.raw)
		ctx := fmt.Sprintf("step %d id %d", step, pk.id)
		infoBefore := converged
		bodies, ok := checkRecovered(s, prop, fs, recs, ctx, !mismatch || infoBefore)
		if !ok {
			break
		}
		info := dec.Info()
		if !mismatch {
			// stability: genuine packets of a matching sender never change the ratio
			// or suspend decoding
			if info.Data != initial.Data || info.Parity != initial.Parity {
				s.Fail("C16", "fec-stability", "ratio-changed", "%s: matching sender, yet the decoder moved from %d/%d to %d/%d", ctx, initial.Data, initial.Parity, info.Data, info.Parity)
				break
			}
			if info.ShouldTune {
				s.Fail("C16", "fec-stability", "decoding-suspended", "%s: matching sender, yet the decoder suspended decoding to re-tune", ctx)
				break
			}
		}
		// uninterrupted run counter (ids increasing by exactly one, no dup)
		if step > 0 && pk.id == (lastID+1)%paws {
			contiguous++
		} else {
			contiguous = 1
		}
		lastID = pk.id
		if mismatch && !converged && contiguous >= 258+2*int(n1) {
			if info.Data != d1 || info.Parity != p1 {
				s.Fail("C16", "fec-convergence", "not-converged", "%s: after an uninterrupted run of %d packets the decoder is at %d/%d, the sender uses %d/%d", ctx, contiguous, info.Data, info.Parity, d1, p1)
				break
			}
		}
		if info.Data == d1 && info.Parity == p1 && !info.ShouldTune {
			if mismatch && !converged {
				s.Stats.Probe("fec-converged")
				s.L.Logf("converged at step %d", step)
				model = map[uint32]*gstate{} // the decoder dropped its shard sets when it switched
				converged = true
				continue
			}
			converged = true
		} else if mismatch && converged {
			// once converged, the ratio must stay
			s.Fail("C16", "fec-stability", "ratio-left-after-convergence", "%s: decoder left the sender's ratio %d/%d for %d/%d (tune=%v)", ctx, d1, p1, info.Data, info.Parity, info.ShouldTune)
			break
		}
		if !converged {
			continue
		}
		// completeness model (only under the sender's ratio)
		g := pk.group
		// "newer" is decided in id space, which is where the wrap lives
		if !haveNewest || int32(g*n1-newest*n1) > 0 {
			newest, haveNewest = g, true
		}
		gs := model[g]
		if gs == nil {
			gs = &gstate{seen: map[uint32]bool{}}
			model[g] = gs
		}
		wasNew := !gs.seen[pk.id]
		gs.seen[pk.id] = true
		recent := int32(newest*n1-g*n1) <= 2*int32(n1)
		if wasNew && len(gs.seen) == d1 && !gs.complete && recent {
			gs.complete = true
			var missing [][]byte
			all := fs.byGroup[g]
			first := g * n1
			for i := 0; i < d1 && i < len(all); i++ {
				if !gs.seen[first+uint32(i)] {
					missing = append(missing, all[i])
				}
			}
			if !sameBodies(bodies, missing) {
				s.Fail(prop, "fec-completeness", "missing-not-reconstructed", "%s: %d distinct packets of group %d received, expected %d reconstructed data packets, decoder returned %d", ctx, d1, g, len(missing), len(bodies))
				break
			}
			if len(missing) > 0 {
				s.Stats.Probe("fec-recovered")
			}
		} else if len(bodies) > 0 {
			s.Stats.Probe("fec-re-emission")
		}
		if len(model) > 64 {
			for k := range model {
				if d := int32(newest*n1 - k*n1); d > 8*int32(n1) || d < -8*int32(n1) {
					delete(model, k)
				}
			}
		}
	}
	fi := dec.Info()
	if fi.ShardSets > 8 {
		s.Fail("C05", "bloat", "fec-shard-sets", "decoder holds %d shard sets", fi.ShardSets)
	}
	if pv := pool.Check(true); pv != nil {
		s.Fail(pv.Prop, pv.Oracle, pv.Sig[len("C15/pool/"):], "%s", pv.Detail)
	}
	r.Res.Progress = len(arr) > 0
	r.Res.Completed = s.Viol == nil
	r.Res.VirtualMs = int64(s.Now() / time.Millisecond)
}

func init() {
	Register("fec-enum", true, scenFecEnum)
	Register("fec-stream", true, scenFecStream)
}

// ---------------------------------------------------------------------------
// scenario "fec-fuzz" (C05): arbitrary and structure-mutated packets fed
// straight to the FEC decoder, interleaved with a genuine stream
// ---------------------------------------------------------------------------

func scenFecFuzz(r *Run) {
	s := r.S
	s.PanicProp = "C05"
	t := s.Tape
	const cs, fz = "cfg", "fuzz"
	pool := NewPoolSan()
	kcp.VerifPoolGet, kcp.VerifPoolPut = pool.Get, pool.Put
	d, p := drawDP(t, cs, t.Chance(cs, 500))
	n := uint32(d + p)
	paws := uint32(0xffffffff) / n * n
	var start uint32
	switch t.Choose(cs, 3) {
	case 1:
		start = paws - n*uint32(1+t.Choose(cs, 4))
	case 2:
		start = n * (uint32(0x80000000)/n - uint32(t.Choose(cs, 3)))
	}
	fs := newFecSender(d, p, start, s.Tape.Seed^0xf22)
	dec := kcp.VerifNewFECDecoder(d, p)
	nPackets := 50 + t.Skewed(cs, 0, 3000)
	r.Res.Config = fmt.Sprintf("decoder=%d/%d start=%d packets=%d", d, p, start, nPackets)
	s.L.Logf("config %s", r.Res.Config)
	var genuine []fecPkt
	maxHeld, maxSets := 0, 0
	for i := 0; i < nPackets && s.Viol == nil; i++ {
		if len(genuine) == 0 || t.Chance(fz, 400) {
			time.Sleep(time.Duration(1+t.Choose(fz, 30)) * time.Millisecond)
			genuine = append(genuine, fs.send(1+t.Choose(fz, 1400))...)
			if len(genuine) > 64 {
				genuine = genuine[len(genuine)-64:]
			}
		}
		var pkt []byte
		kind := t.Choose(fz, 10)
		g := genuine[t.Choose(fz, len(genuine))]
		switch kind {
		case 0, 1:
			pkt = append([]byte(nil), g.raw...) // genuine (possibly a duplicate or late)
		case 2:
			// pure noise, at least the 8 bytes the session layer guarantees
			pkt = make([]byte, 8+t.Skewed(fz, 0, 1492))
			x := splitmixFrom(t, fz)
			for j := range pkt {
				pkt[j] = byte(splitmix(&x))
			}
		case 3:
			// type flipped
			pkt = append([]byte(nil), g.raw...)
			binary.LittleEndian.PutUint16(pkt[4:], uint16(Pick(t, fz, []int{0xf1, 0xf2, 0xf3, 0, 0xffff, 0x51})))
		case 4:
			// seqid forged: extremes, the wrap value and beyond, other groups
			pkt = append([]byte(nil), g.raw...)
			binary.LittleEndian.PutUint32(pkt, forgeU32(t, fz, g.id, 3*int(n)))
			if t.Chance(fz, 300) {
				binary.LittleEndian.PutUint32(pkt, paws+uint32(t.Choose(fz, 4))-2)
			}
		case 5:
			// size field lies
			pkt = append([]byte(nil), g.raw...)
			binary.LittleEndian.PutUint16(pkt[6:], uint16(Pick(t, fz, []int{0, 1, 2, 3, 65535, len(pkt), len(pkt) + 1, 1500})))
		case 6:
			// truncated / extended
			pkt = append([]byte(nil), g.raw...)
			if t.Chance(fz, 500) {
				pkt = pkt[:8+t.Choose(fz, len(pkt)-7)]
			} else {
				pkt = append(pkt, make([]byte, t.Choose(fz, 1500-len(pkt)+1))...)
			}
		case 7:
			// parity for a group that was never sent
			pkt = make([]byte, 8+t.Choose(fz, 1400))
			binary.LittleEndian.PutUint32(pkt, (g.id/n+uint32(1+t.Choose(fz, 5)))*n+uint32(d+t.Choose(fz, p)))
			binary.LittleEndian.PutUint16(pkt[4:], 0xf2)
		case 8:
			// a run that drives the auto-tuner: contiguous ids with a forged period
			dd, pp := 1+t.Choose(fz, 40), 1+t.Choose(fz, 40)
			base := g.id
			for k := 0; k < 2*(dd+pp)+3 && k < 300; k++ {
				q := make([]byte, 8+10)
				binary.LittleEndian.PutUint32(q, base+uint32(k))
				ty := uint16(0xf1)
				if k%(dd+pp) >= dd {
					ty = 0xf2
				}
				binary.LittleEndian.PutUint16(q[4:], ty)
				binary.LittleEndian.PutUint16(q[6:], 12)
				for _, rr := range dec.Decode(q) {
					kcp.VerifPoolRecycle(rr)
				}
			}
			s.Stats.Fault("forged-period-run")
			continue
		default:
			// exactly 8 bytes: header and size field only
			pkt = append([]byte(nil), g.raw[:8]...)
		}
		if len(pkt) > 1500 {
			pkt = pkt[:1500]
		}
		s.Stats.Fault(fmt.Sprintf("fec-fuzz-kind-%d", kind))
		recs := dec.Decode(pkt)
		for _, rr := range recs {
			kcp.VerifPoolRecycle(rr)
		}
		if len(recs) > 0 {
			s.Stats.Probe("decoder-returned-something")
		}
		fi := dec.Info()
		if fi.ShardSets > maxSets {
			maxSets = fi.ShardSets
		}
		if fi.Held > maxHeld {
			maxHeld = fi.Held
		}
		// bounded holdings whatever arrives: a few shard sets of at most one group each
		if fi.ShardSets > 16 {
			s.Fail("C05", "bloat", "fec-shard-sets", "after %d packets the decoder holds %d shard sets", i+1, fi.ShardSets)
		}
		if fi.Held > 16*256 {
			s.Fail("C05", "bloat", "fec-shards-held", "after %d packets the decoder holds %d packets", i+1, fi.Held)
		}
		if out := pool.Outstanding(); out > fi.Held+64 {
			s.Fail("C05", "bloat", "pooled-buffers-held", "after %d packets %d pooled buffers are outstanding, the decoder accounts for %d", i+1, out, fi.Held)
		}
	}
	s.Stats.ProbeN("max-shard-sets", maxSets)
	s.Stats.ProbeN("max-packets-held", maxHeld)
	if pv := pool.Check(true); pv != nil {
		s.Fail(pv.Prop, pv.Oracle, pv.Sig[len("C15/pool/"):], "%s", pv.Detail)
	}
	r.Res.Progress = true
	r.Res.Completed = s.Viol == nil
	r.Res.VirtualMs = int64(s.Now() / time.Millisecond)
}

func init() {
	Register("fec-fuzz", true, scenFecFuzz)
}
