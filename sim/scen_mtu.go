package sim

import (
	"fmt"
	"time"

	kcp "github.com/xtaci/kcp-go/v5"
)

// C10: no datagram exceeds the configured MTU; accepted MTUs are safe.

func drawMTU(t *Tape, st string, overhead int) int {
	switch t.Choose(st, 12) {
	case 0:
		return 1400
	case 1:
		return overhead + 24 + t.Choose(st, 4) - 1 // around the smallest acceptable value
	case 2:
		return overhead + 25 + t.Choose(st, 80) // tiny MSS
	case 3:
		return 50 + t.Choose(st, 1451)
	case 4:
		return 1499 + t.Choose(st, 4)
	case 5:
		return 1500 + overhead + 22 + t.Choose(st, 6)
	case 6:
		return Pick(t, st, []int{2000, 9000, 65535, 65536, 1 << 20, 1 << 31, 1<<31 - 1})
	case 7:
		return -t.Choose(st, 3000)
	case 8:
		return t.Choose(st, 30)
	case 9:
		return 576
	case 10:
		return 1280
	default:
		return 100 + t.Choose(st, 200)
	}
}

// scenCoreMTU: raw cores, SetMtu with any int before and during traffic.
func scenCoreMTU(r *Run) {
	s := r.S
	s.PanicProp = "C10"
	t := s.Tape
	const cs, ms = "cfg", "mtu"
	ca, cb := DrawCoreCfg(t, cs), DrawCoreCfg(t, cs)
	ca.MTU, cb.MTU = 0, 0
	// the "initial" stratum changes the MTU only before any data is queued; the
	// "midway" stratum changes it at any point of the transfer
	midway := r.Spec.Stratum != "initial"
	s.MaxSteps = 2000000
	s.MaxVirtual = 10 * time.Minute
	w := NewCoreWorld(s, true, 0)
	w.Links.Default = drawLink(t, cs)
	w.CheckWindows = false
	a, b := w.AddPair(ca, cb, 0x55)
	mtuOf := map[*CoreEnd]int{a: 1400, b: 1400}
	setMTU := func(e *CoreEnd) {
		m := drawMTU(t, ms, 0)
		st := e.K.VerifStateLite()
		ret := e.K.SetMtu(m)
		s.L.Logf("SetMtu %s (%d) -> %d  [queued=%d inflight=%d]", e.Name, m, ret, st.SndQueue, st.SndBuf)
		if ret == 0 {
			s.Stats.Probe("setmtu-accepted")
			if m < mtuOf[e] && st.SndQueue+st.SndBuf > 0 {
				s.Stats.Probe("setmtu-shrink-with-data-queued")
			}
			if m > 1524 {
				s.Stats.Probe("setmtu-accepted-above-buffer-size")
			}
			mtuOf[e] = m
			e.Cfg.MTU = m
		} else {
			s.Stats.Probe("setmtu-refused")
		}
	}
	nInitial := t.Choose(ms, 3)
	for i := 0; i < nInitial; i++ {
		setMTU(a)
		setMTU(b)
	}
	maxSegs := 200
	a.Target = int64(t.Skewed(cs, 1, 1400*maxSegs))
	b.Target = int64(t.Skewed(cs, 0, 1400*maxSegs))
	r.Res.Config = fmt.Sprintf("a{%s} b{%s} bytes=%d/%d midway=%v mtu0=%d/%d", ca, cb, a.Target, b.Target, midway, mtuOf[a], mtuOf[b])
	s.L.Logf("config %s", r.Res.Config)
	a.StartTicks()
	b.StartTicks()
	a.StartSender(t.Choose(cs, 5), 200, 100000)
	b.StartSender(t.Choose(cs, 5), 200, 100000)
	if midway {
		n := 1 + t.Choose(ms, 4)
		at := time.Duration(0)
		for i := 0; i < n; i++ {
			at += time.Duration(t.Skewed(ms, 0, 2000000)) * time.Microsecond
			who := a
			if t.Chance(ms, 500) {
				who = b
			}
			s.At(at, "setmtu:"+who.Name, func() { setMTU(who) })
		}
	}
	s.Run(w.Done)
	r.Res.VirtualMs = int64(s.Now() / time.Millisecond)
	r.Res.Completed = w.Done()
	r.Res.Progress = a.recvBytes+b.recvBytes > 0
	if pv := w.Pool.Check(true); pv != nil {
		s.Fail(pv.Prop, pv.Oracle, pv.Sig[len("C15/pool/"):], "%s", pv.Detail)
	}
}

// scenSessMTU: sessions, SetMtu with any int before and during traffic, all
// cipher/FEC overhead combinations, OOB at the advertised maximum.
func scenSessMTU(r *Run) {
	s := r.S
	t := s.Tape
	const ms = "mtu"
	o := DrawXferOpt(t, r.Spec.Tier)
	o.CfgA.MTU, o.CfgB.MTU = 0, 0
	o.CfgA.RateLimit, o.CfgB.RateLimit = 0, 0
	midway := r.Spec.Stratum != "initial"
	o.MaxVirtual = 5 * time.Minute
	straddle := r.Spec.Stratum == "parity-straddle"
	if straddle {
		// provokes and reports the recorded finding "parity of a FEC group that
		// straddles an MTU reduction exceeds the new MTU" (other strata count it)
		if o.World.FecD == 0 {
			o.World.FecD, o.World.FecP = 3+t.Choose(ms, 8), 1+t.Choose(ms, 3)
		}
		o.BytesAB = 3000 + int64(t.Choose(ms, 20000))
		// writes with pauses, so that the send queues drain between them and a
		// reduction is accepted in the middle of a FEC group
		o.WModeA = IOMode{Kind: 2, PausePM: 900, PauseUs: 150000}
		o.Link = LinkCfg{BaseUs: 500, JitterUs: 200}
		o.CfgA.WriteDelay, o.CfgA.SndWnd = false, 0
	}
	skipShrink := r.Spec.Stratum == "skip-shrink"
	if skipShrink {
		// a FEC group whose parity is skipped (idle gap of at least one RTO before
		// its last data packet), then an accepted reduction, then continuous
		// groups: their parity must respect the new MTU (encoder state carried
		// over a skipped group must not size later parity)
		if o.World.FecD == 0 {
			o.World.FecD, o.World.FecP = 2+t.Choose(ms, 4), 1+t.Choose(ms, 2)
		}
		o.BytesAB = 20000 + int64(t.Choose(ms, 60000))
		o.WModeA = IOMode{Kind: 2, PausePM: 300 + t.Choose(ms, 500), PauseUs: 100000 + t.Choose(ms, 500000)}
		o.Link = LinkCfg{BaseUs: 500, JitterUs: 200}
		o.CfgA.WriteDelay, o.CfgA.SndWnd = false, 0
		o.MaxVirtual = 20 * time.Minute
	}
	x := NewXfer(r, o)
	w := x.W
	w.ReportParityStraddle = straddle
	fec := w.FecD > 0 && w.FecP > 0
	over := w.Overhead(fec)
	ctl := s.NewActor("mtu-setter")
	setMTU := func(ep *Endpoint, m int, then func()) {
		if ep == nil || ep.CloseInvoked || ctl.Busy() {
			if then != nil {
				then()
			}
			return
		}
		st := ep.StateLite()
		pq := ep.Sess.VerifPostQueue()
		s.L.Logf("call %s SetMtu(%d) [queued=%d inflight=%d postq=%d]", ep.Name, m, st.SndQueue, st.SndBuf, pq)
		sess := ep.Sess
		ctl.Do("SetMtu", func() any { return sess.SetMtu(m) }, func(res any) {
			if pr, ok := res.(PanicResult); ok {
				s.Fail("C10", "survive", "panic-in-setmtu", "SetMtu(%d) panicked: %s at %s", m, pr.Value, pr.Stack)
				return
			}
			ok := res.(bool)
			s.L.Logf("ret  %s SetMtu(%d) -> %v", ep.Name, m, ok)
			if ok {
				s.Stats.Probe("setmtu-accepted")
				eff := min(m, 1500)
				if eff < ep.MTU && st.SndQueue+st.SndBuf > 0 {
					s.Stats.Probe("setmtu-shrink-with-data-queued")
				}
				// datagrams already handed to post-processing were built under the old MTU
				ep.PrevMTU, ep.PrevUntil = ep.MTU, ep.Emitted+pq
				ep.MTU = eff
				if eff-over <= 24 {
					s.Fail("C10", "mtu", "accepted-unusable-mtu", "%s: SetMtu(%d) accepted although %d bytes of overhead leave no room for a KCP segment", ep.Name, m, over)
				}
			} else {
				s.Stats.Probe("setmtu-refused")
			}
			if then != nil {
				then()
			}
		})
	}
	if midway {
		n := 1 + t.Choose(ms, 4)
		at := time.Duration(0)
		if straddle || skipShrink {
			n = 6 + t.Choose(ms, 6)
		}
		cur := 1400
		for i := 0; i < n; i++ {
			at += time.Duration(t.Skewed(ms, 0, 1500000)) * time.Microsecond
			pickB := t.Chance(ms, 500)
			m := drawMTU(t, ms, over)
			if straddle {
				pickB = false
				m = over + 25 + t.Choose(ms, 1300)
			}
			if skipShrink {
				// mostly a descending staircase, sometimes back up
				pickB = false
				if t.Chance(ms, 250) {
					cur = 1400
				} else {
					cur = max(over+25+t.Choose(ms, 60), cur-1-t.Choose(ms, 400))
				}
				m = cur
			}
			s.At(at, "setmtu", func() {
				ep := x.A
				if pickB && x.B != nil {
					ep = x.B
				}
				setMTU(ep, m, nil)
			})
		}
	} else {
		// before any traffic: both writers are started by NewXfer already, but their
		// first Write is an event of its own, so this runs first
		m1, m2 := drawMTU(t, ms, over), drawMTU(t, ms, over)
		s.At(0, "setmtu", func() { setMTU(x.A, m1, func() { setMTU(x.B, m2, nil) }) })
	}
	// stream mode switched on (or off) in mid-transfer, with data queued: like
	// SetMtu it changes how the next Write is laid onto the queued segments (a
	// tape stream of its own: older tapes keep their meaning)
	if midway && t.Chance("mtu-stream", 300) {
		n := 1 + t.Choose("mtu-stream", 3)
		at := time.Duration(0)
		on := !o.CfgA.Stream
		for i := 0; i < n; i++ {
			at += time.Duration(t.Skewed("mtu-stream", 0, 1500000)) * time.Microsecond
			v := on
			on = !on
			s.At(at+3, "setstream", func() {
				if x.A == nil || x.A.CloseInvoked || ctl.Busy() {
					return
				}
				st := x.A.StateLite()
				s.L.Logf("call A SetStreamMode(%v) [queued=%d inflight=%d]", v, st.SndQueue, st.SndBuf)
				s.Stats.Probe("setstreammode-midway")
				sess := x.A.Sess
				ctl.Do("SetStreamMode", func() any { sess.SetStreamMode(v); return nil }, func(any) {})
			})
		}
	}
	// SetNoDelay in mid-transfer, both directions of the switch (the minimum RTO
	// follows the mode: 30 ms in no-delay mode, 100 ms otherwise)
	if midway && t.Chance("mtu-nodelay", 300) {
		n := 1 + t.Choose("mtu-nodelay", 4)
		at := time.Duration(0)
		for i := 0; i < n; i++ {
			at += time.Duration(t.Skewed("mtu-nodelay", 0, 1500000)) * time.Microsecond
			nd, iv, rs, nc := t.Choose("mtu-nodelay", 2), 10+t.Choose("mtu-nodelay", 90), t.Choose("mtu-nodelay", 3), t.Choose("mtu-nodelay", 2)
			pickB := t.Chance("mtu-nodelay", 400)
			s.At(at+5, "setnodelay", func() {
				ep := x.A
				if pickB && x.B != nil {
					ep = x.B
				}
				if ep == nil || ep.CloseInvoked || ctl.Busy() {
					return
				}
				s.L.Logf("call %s SetNoDelay(%d,%d,%d,%d)", ep.Name, nd, iv, rs, nc)
				s.Stats.Probe("setnodelay-midway")
				sess := ep.Sess
				ctl.Do("SetNoDelay", func() any { sess.SetNoDelay(nd, iv, rs, nc); return nil }, func(any) {
					ep.Cfg.SetNoDelay, ep.Cfg.NoDelay, ep.Cfg.Interval, ep.Cfg.Resend, ep.Cfg.NC = true, nd, iv, rs, nc
				})
			})
		}
	}
	// OOB at the advertised maximum must fit the MTU as well
	if fec && t.Chance(ms, 600) {
		n := 1 + t.Choose(ms, 5)
		oob := s.NewActor("oob-sender")
		at := time.Duration(0)
		for i := 0; i < n; i++ {
			at += time.Duration(t.Skewed(ms, 0, 1500000)) * time.Microsecond
			delta := t.Choose(ms, 3) // 0: max, 1: max+1, 2: max-1
			s.At(at, "oob", func() {
				ep := x.A
				if ep.CloseInvoked || oob.Busy() {
					return
				}
				sess := ep.Sess
				oob.Do("SendOOB", func() any {
					max := sess.GetOOBMaxSize()
					n := max
					switch delta {
					case 1:
						n = max + 1
					case 2:
						n = max - 1
					}
					if n < 0 {
						n = 0
					}
					err := sess.SendOOB(make([]byte, n))
					return [3]any{n, max, err}
				}, func(res any) {
					if pr, ok := res.(PanicResult); ok {
						s.Fail("C10", "survive", "panic-in-sendoob", "SendOOB panicked: %s at %s", pr.Value, pr.Stack)
						return
					}
					v := res.([3]any)
					s.L.Logf("ret  SendOOB(%d) max=%d -> %v", v[0], v[1], v[2])
					s.Stats.Probe("oob-sent-at-max")
					if v[0].(int) > v[1].(int) && v[2] == nil {
						s.Fail("C19", "oob", "oversize-accepted", "SendOOB accepted %d bytes, GetOOBMaxSize is %d", v[0], v[1])
					}
				})
			})
		}
	}
	s.Run(x.Done)
	x.Finish()
}

var _ = kcp.IKCP_OVERHEAD

func init() {
	Register("core-mtu", true, scenCoreMTU)
	Register("sess-mtu", false, scenSessMTU)
}
