package sim

import (
	"bytes"
	"fmt"
	"strings"

	"github.com/klauspost/reedsolomon"
)

// wireFlow is what the independent decoder has learnt about one direction of
// one connection from the wire alone.
type wireFlow struct {
	segs map[uint32][]byte // PUSH payloads not yet contiguous with the stream
	next uint32            // next sn of the reassembled stream
	init bool
	xmit map[uint32]*snInfo // per sn: transmissions and payload hash

	fecInit  bool
	fecNext  uint32 // expected id of the next FEC packet
	fecAlt   uint32 // alternative expected id (parity skipped), valid if fecAltOK
	fecAltOK bool
	grp      uint32   // current group index
	grpData  [][]byte // size-prefixed payloads of the current group, by position

	LastWnd    uint16 // last wnd field emitted on this flow
	ZeroWndAt  int    // number of frames that advertised wnd 0
	Frames     int
	PushSegs   int
	Retrans    int
	MaxXmit    int
	ParitySeen int
	ParityOK   int
	SkipSeen   int
	OOBSeen    int
}

type snInfo struct {
	n    int
	hash string
	ln   int
}

var rsCache = map[[2]int]reedsolomon.Encoder{}

func rsFor(d, p int) reedsolomon.Encoder {
	k := [2]int{d, p}
	if e, ok := rsCache[k]; ok {
		return e
	}
	e, err := reedsolomon.New(d, p)
	if err != nil {
		panic("harness: reedsolomon.New: " + err.Error())
	}
	rsCache[k] = e
	return e
}

func (w *World) mtuAllowed(ep *Endpoint) int {
	if ep == nil {
		return 1400
	}
	if ep.PrevMTU > ep.MTU && ep.Emitted < ep.PrevUntil {
		return ep.PrevMTU
	}
	return ep.MTU
}

// onEmit is the always-on wire oracle (C09, C10) and the source of the
// library-independent view other oracles use.
func (w *World) onEmit(p *OutPkt) {
	s := w.S
	p.Src.Sent++
	key := p.Src.addrStr + ">" + p.Dst
	ep := w.byFlow[key]
	fc := w.connFEC[p.Src.id]
	fec := fc[0] > 0 && fc[1] > 0
	logf := s.L.Logf
	if p.Post {
		logf = s.L.Notef
	}

	f, err := DecodeFrame(w.Ref, fec, p.Data)

	// C10: size against the MTU in force
	lim := w.mtuAllowed(ep)
	if ep != nil && f != nil && f.HasFEC && !f.OOB {
		// remember the largest MTU in force while the data packets of the current
		// FEC group were emitted
		g := f.FecSeq / uint32(fc[0]+fc[1])
		if g != ep.fecGrp || !ep.fecGrpInit {
			ep.fecGrp, ep.fecGrpInit, ep.fecGrpMTU = g, true, 0
		}
		if f.FecType == wFecData && lim > ep.fecGrpMTU {
			ep.fecGrpMTU = lim
		}
	}
	if len(p.Data) > lim {
		if ep != nil && f != nil && f.HasFEC && f.FecType == wFecParity && len(p.Data) <= ep.fecGrpMTU {
			// recorded finding (known_findings.txt): parity is as long as the longest
			// data packet of its group, also when the MTU was reduced in mid-group
			if w.ReportParityStraddle {
				s.Fail("C10", "mtu", "parity-of-group-straddling-mtu-reduction", "%s#%d: parity datagram of %d bytes exceeds MTU %d; data packets of its FEC group were built under MTU %d", key, p.Idx, len(p.Data), lim, ep.fecGrpMTU)
			} else {
				s.Stats.Probe("known-finding-met:parity-of-group-straddling-mtu-reduction")
			}
		} else {
			s.Fail("C10", "mtu", "datagram-exceeds-mtu", "%s#%d: datagram of %d bytes exceeds MTU %d", key, p.Idx, len(p.Data), lim)
		}
	}
	if len(p.Data) == 0 {
		s.Fail("C10", "mtu", "empty-datagram", "%s#%d: empty datagram", key, p.Idx)
	}
	if ep != nil {
		ep.Emitted++
	}

	if err != nil {
		s.Fail("C09", "wire", "unparseable", "%s#%d len=%d: %v", key, p.Idx, len(p.Data), err)
		logf("emit %s#%d len=%d UNPARSEABLE %v", key, p.Idx, len(p.Data), err)
		return
	}
	p.Frame = f

	// SetDUP(n): the library transmits n extra byte-identical copies right after
	// the original; they are what the application asked for, not repeats
	if ep != nil && ep.Cfg.Dup > 0 {
		h := fnvBytes(p.Data)
		if h == ep.lastRaw && ep.dupRun < ep.Cfg.Dup {
			ep.dupRun++
			s.Stats.Probe("configured-duplicate")
			logf("emit %s#%d len=%d configured duplicate %d/%d", key, p.Idx, len(p.Data), ep.dupRun, ep.Cfg.Dup)
			return
		}
		ep.lastRaw, ep.dupRun = h, 0
	}

	// C09: fresh nonce, no identical datagrams
	if !w.Ref.IsNull() {
		nk := string(f.Nonce)
		if _, dup := w.nonces[nk]; dup {
			s.Fail("C09", "wire", "nonce-repeat", "%s#%d: nonce %x already used in this run", key, p.Idx, f.Nonce)
		}
		w.nonces[nk] = struct{}{}
		rk := hashBytes(p.Data)
		if _, dup := w.rawSeen[rk]; dup {
			s.Fail("C09", "wire", "identical-datagram", "%s#%d: datagram identical to an earlier one", key, p.Idx)
		}
		w.rawSeen[rk] = struct{}{}
	}

	var wf *wireFlow
	if ep != nil {
		wf = ep.Out.wire
	}
	if wf == nil {
		// session not (yet) known to the harness (e.g. accepted inside the
		// listener but Accept not returned): keep a per-flow record anyway
		wf = w.anonFlow(key)
	}
	wf.Frames++

	if p.Post {
		// After Close of the session the harness knows on this flow, datagrams may
		// come from a successor session the listener created for the same peer
		// (fresh FEC ids, fresh sn): layout, size, nonce and conv-independent
		// checks above still apply, per-flow continuity does not.
		wf = w.anonFlow(key + "/post")
		wf.fecInit = false
		wf.grpData = nil // nor do groups continue: successive sessions may flush here
		ep = nil
	}
	if f.HasFEC && !f.OOB {
		w.checkFEC(key, p, f, wf, fc[0], fc[1])
	}
	if f.OOB {
		wf.OOBSeen++
		if ep != nil && f.OOBConv != ep.Sess.GetConv() {
			s.Fail("C09", "wire", "oob-conv", "%s#%d: OOB packet carries conv %d, session has %d", key, p.Idx, f.OOBConv, ep.Sess.GetConv())
		}
	}

	var desc []string
	for i := range f.Segs {
		sg := &f.Segs[i]
		if ep != nil && sg.Conv != ep.Sess.GetConv() {
			s.Fail("C09", "wire", "conv", "%s#%d: segment carries conv %d, session has %d", key, p.Idx, sg.Conv, ep.Sess.GetConv())
		}
		wf.LastWnd = sg.Wnd
		switch sg.Cmd {
		case wCmdPush:
			desc = append(desc, fmt.Sprintf("P%d/%d", sg.Sn, sg.Len))
			w.notePush(key, p, ep, wf, sg)
		case wCmdAck:
			desc = append(desc, fmt.Sprintf("A%d", sg.Sn))
		case wCmdWask:
			desc = append(desc, "WASK")
			s.Stats.Probe("wask-emitted")
		case wCmdWins:
			desc = append(desc, "WINS")
			s.Stats.Probe("wins-emitted")
		}
		if sg.Wnd == 0 {
			wf.ZeroWndAt++
			s.Stats.Probe("zero-window-advertised")
		}
	}
	s.Stats.Probe("emit-" + f.Kind())
	if len(desc) > 12 {
		desc = append(desc[:12], fmt.Sprintf("+%d", len(desc)-12))
	}
	extra := ""
	if f.HasFEC {
		extra = fmt.Sprintf(" fec=%d/%x", f.FecSeq, f.FecType)
	}
	logf("emit %s#%d len=%d %s%s [%s]", key, p.Idx, len(p.Data), f.Kind(), extra, strings.Join(desc, " "))
}

var anonFlows = map[*World]map[string]*wireFlow{}

func (w *World) anonFlow(key string) *wireFlow {
	m := anonFlows[w]
	if m == nil {
		// only one world lives at a time; drop stale entries
		for k := range anonFlows {
			delete(anonFlows, k)
		}
		m = map[string]*wireFlow{}
		anonFlows[w] = m
	}
	wf := m[key]
	if wf == nil {
		wf = &wireFlow{segs: map[uint32][]byte{}}
		m[key] = wf
	}
	return wf
}

// notePush records one PUSH segment: transmissions per sn, identical payload on
// retransmission, and the stream reassembled from the wire alone.
func (w *World) notePush(key string, p *OutPkt, ep *Endpoint, wf *wireFlow, sg *Seg) {
	s := w.S
	if wf.xmit == nil {
		wf.xmit = map[uint32]*snInfo{}
	}
	h := hashBytes(sg.Data)
	info := wf.xmit[sg.Sn]
	if info == nil {
		info = &snInfo{hash: h, ln: len(sg.Data)}
		wf.xmit[sg.Sn] = info
		wf.PushSegs++
	} else {
		wf.Retrans++
		s.Stats.Probe("retransmission-on-wire")
		if w.CheckOnce {
			s.Fail("C18", "clean-path", "retransmission", "%s#%d: sn %d transmitted %d times on a clean path", key, p.Idx, sg.Sn, info.n+1)
		}
		if info.hash != h || info.ln != len(sg.Data) {
			s.Fail("C09", "wire", "retransmission-differs", "%s#%d: sn %d retransmitted with different payload (len %d vs %d)", key, p.Idx, sg.Sn, len(sg.Data), info.ln)
		}
	}
	info.n++
	if info.n > wf.MaxXmit {
		wf.MaxXmit = info.n
	}
	if ep == nil || ep.Out == nil || ep.Out.NoCheck {
		return
	}
	if !wf.init {
		wf.init = true
		wf.next = ep.Out.isn()
	}
	if seqLess(sg.Sn, wf.next) {
		return
	}
	if _, ok := wf.segs[sg.Sn]; !ok {
		wf.segs[sg.Sn] = append([]byte(nil), sg.Data...)
	}
	for {
		d, ok := wf.segs[wf.next]
		if !ok {
			break
		}
		delete(wf.segs, wf.next)
		if i := flowCheck(ep.Out.Key, ep.Out.WirePos, d); i >= 0 {
			s.Fail("C09", "wire", "reassembly-mismatch", "%s: stream reassembled from the wire differs from what was written at offset %d (sn %d)", key, ep.Out.WirePos+int64(i), wf.next)
			return
		}
		ep.Out.WirePos += int64(len(d))
		wf.next++
	}
}

func (f *Flow) isn() uint32 { return f.ISN }

// checkFEC verifies id continuity, type/position agreement and the parity bytes.
func (w *World) checkFEC(key string, p *OutPkt, f *Frame, wf *wireFlow, d, par int) {
	s := w.S
	n := uint32(d + par)
	paws := uint32(0xffffffff) / n * n
	if f.FecSeq >= paws {
		s.Fail("C09", "wire", "fec-id-range", "%s#%d: FEC id %d outside [0,%d)", key, p.Idx, f.FecSeq, paws)
		return
	}
	pos := f.FecSeq % n
	if (pos < uint32(d)) != (f.FecType == wFecData) {
		s.Fail("C09", "wire", "fec-type-position", "%s#%d: FEC id %d is position %d of %d+%d but type is %#x", key, p.Idx, f.FecSeq, pos, d, par, f.FecType)
	}
	if wf.fecInit {
		if f.FecSeq != wf.fecNext && !(wf.fecAltOK && f.FecSeq == wf.fecAlt) {
			s.Fail("C09", "wire", "fec-id-sequence", "%s#%d: FEC id %d, expected %d", key, p.Idx, f.FecSeq, wf.fecNext)
		}
		if wf.fecAltOK && f.FecSeq == wf.fecAlt && f.FecSeq != wf.fecNext {
			wf.SkipSeen++
			s.Stats.Probe("fec-parity-skipped")
		}
	}
	wf.fecInit = true
	wf.fecNext = (f.FecSeq + 1) % paws
	wf.fecAltOK = false
	if pos == uint32(d)-1 {
		wf.fecAlt = (f.FecSeq + 1 + uint32(par)) % paws
		wf.fecAltOK = true
	}
	if f.FecSeq == 0 && wf.Frames > 1 {
		s.Stats.Probe("fec-id-wrapped")
	}
	g := f.FecSeq / n
	if g != wf.grp || wf.grpData == nil {
		wf.grp = g
		wf.grpData = make([][]byte, d)
	}
	if f.FecType == wFecData {
		if int(pos) < d {
			wf.grpData[pos] = append([]byte(nil), f.FecBody...)
		}
		return
	}
	// parity: recompute the Reed-Solomon code over the zero-padded,
	// size-prefixed payloads of the group
	wf.ParitySeen++
	maxlen := 0
	for _, b := range wf.grpData {
		if b == nil {
			return // group not completely observed (should not happen on a sender)
		}
		if len(b) > maxlen {
			maxlen = len(b)
		}
	}
	if len(f.FecBody) != maxlen {
		s.Fail("C09", "wire", "parity-length", "%s#%d: parity body %d bytes, longest data payload of the group %d", key, p.Idx, len(f.FecBody), maxlen)
		return
	}
	shards := make([][]byte, d+par)
	for i := 0; i < d; i++ {
		shards[i] = make([]byte, maxlen)
		copy(shards[i], wf.grpData[i])
	}
	for i := d; i < d+par; i++ {
		shards[i] = make([]byte, maxlen)
	}
	if err := rsFor(d, par).Encode(shards); err != nil {
		panic("harness: rs encode: " + err.Error())
	}
	if !bytes.Equal(shards[pos], f.FecBody) {
		s.Fail("C09", "wire", "parity-content", "%s#%d: parity %d of group %d is not the Reed-Solomon code of the group's payloads", key, p.Idx, pos-uint32(d), g)
		return
	}
	wf.ParityOK++
	s.Stats.Probe("fec-parity-verified")
}

func fnvBytes(b []byte) uint64 { return hashOf(b) }
